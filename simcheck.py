#!/venv/bin/python
"""Entry point: simcheck.py <PROPERTY> quick|thorough   |   simcheck.py replay <file>   |   simcheck.py selftest"""
import os
import sys

sys.path.insert(0, os.path.dirname(os.path.abspath(__file__)))
from vsim import boot

boot.ensure_env()


def main(argv):
    from vsim import runner
    from vsim.boot import HarnessError
    if len(argv) < 2:
        print(__doc__)
        return 2
    try:
        if argv[1] == 'replay':
            pid, want, got, same, res = runner.replay_file(argv[2])
            if got is not None:
                print('  %s: %s' % (got['inv'], got['msg']))
                print('replay digest %s stored digest: %s' % (res.get('digest'), 'same' if same else 'DIFFERENT'))
                print('VIOLATION property=%s replay=%s' % (pid, argv[2]))
                return 1
            print('replay of %s: no violation (stored: %s)' % (argv[2], want.get('inv')))
            return 0
        if argv[1] == 'minimise':
            import json
            doc = json.load(open(argv[2]))
            small, best, tests = runner.minimise(doc['property'], doc['seed'], doc['cfg'], doc['events'], doc['violation']['inv'],
                                                 budget_s=float(os.environ.get('VERIF_MIN_S', '120')))
            if best is None:
                print('does not reproduce')
                return 1
            vv = [x for x in best['violations'] if x['inv'] == doc['violation']['inv']][0]
            out = runner.write_replay(doc['property'], doc['seed'], doc['cfg'], small, vv, best.get('digest'),
                                      name=os.path.basename(argv[3]), directory=os.path.dirname(os.path.abspath(argv[3])))
            print('minimised %d -> %d events in %d tests: %s' % (len(doc['events']), len(small), tests, out))
            return 0
        if argv[1] == 'selftest':
            from vsim import selftest
            return selftest.main(argv[2:])
        pid = argv[1].upper()
        tier = argv[2] if len(argv) > 2 else os.environ.get('VERIF_TIER', 'quick')
        return runner.run_check(pid, tier)
    except HarnessError as e:
        print('HARNESS-ERROR %r' % (e,))
        return 2


if __name__ == '__main__':
    sys.exit(main(sys.argv))
