"""SimNet: byte-stream sockets under the repository's real TcpConnection/TcpServer.

A connection is two one-directional pipes (in-flight bytes -> receive buffer).
The *scheduler* decides when in-flight bytes become readable, when connects
resolve and how, when resets travel.  FIFO per pipe; never duplication,
reordering or corruption inside a connection.
"""
import errno as _errno
import socket as _real
import types

from .boot import CTX

R, W, E = 1, 2, 4


class Pipe(object):
    __slots__ = ('pid', 'conn', 'inflight', 'rcv', 'fin', 'fin_delivered', 'held',
                 'reader_closed', 'rst_pending', 'writer', 'reader', 'sent', 'delivered', 'dead')

    def __init__(self, pid, conn):
        self.pid = pid
        self.conn = conn
        self.inflight = bytearray()
        self.rcv = bytearray()
        self.fin = False            # writer closed; FIN follows the in-flight bytes
        self.fin_delivered = False
        self.held = False           # adversary / black hole: nothing moves
        self.reader_closed = False  # reader's socket is gone: arriving bytes bounce a RST
        self.rst_pending = False    # a RST is travelling towards the reader
        self.writer = None
        self.reader = None
        self.sent = 0
        self.delivered = 0
        self.dead = False

    def space(self, cap):
        return cap - len(self.inflight) - len(self.rcv)

    def has_work(self):
        """Something the scheduler could deliver on this pipe."""
        if self.dead:
            return False
        if self.inflight:
            return True
        if self.fin and not self.fin_delivered and not self.reader_closed:
            return True
        if self.rst_pending:
            return True
        return False


class Conn(object):
    """One TCP connection attempt client host -> server host."""
    __slots__ = ('cid', 'chost', 'shost', 'port', 'csock', 'ssock', 'p_cs', 'p_sc', 'state', 't_start')

    def __init__(self, cid, chost, shost, port, csock, t):
        self.cid = cid
        self.chost = chost
        self.shost = shost          # host index or None (unknown address)
        self.port = port
        self.csock = csock
        self.ssock = None
        self.p_cs = None
        self.p_sc = None
        self.state = 'pending'      # pending, open, failed
        self.t_start = t


class SimSocket(object):
    def __init__(self, net, host):
        self.net = net
        self.host = host            # host index
        self._fd = net.new_fd(host)
        self.state = 'new'          # new, connecting, connected, listening, closed
        self.rx = None
        self.tx = None
        self.so_error = 0
        self.reset = False
        self.acceptq = []
        self.addr = None
        self.conn = None
        self.opts = {}
        net.socks[self._fd] = self

    # -- API used by tcp_connection / tcp_server --------------------------------
    def setsockopt(self, level, opt, val):
        self.opts[(level, opt)] = val

    def setblocking(self, v):
        pass

    def fileno(self):
        return self._fd

    def getsockopt(self, level, opt):
        self.net.charge()
        if level == _real.SOL_SOCKET and opt == _real.SO_ERROR:
            e = self.so_error
            return e
        return self.opts.get((level, opt), 0)

    def connect(self, addr):
        self.net.charge()
        net = self.net
        if net.sync_fail_p:
            # a connect that fails at once (no route to the network, address not available): the kernel answers the
            # system call itself instead of EINPROGRESS - drawn when the destination cannot be reached right now
            dst = net.port_to_host.get(int(addr[1]))
            if dst is None or net.blocked is not None and net.blocked(self.host, dst):
                if net.world.net_rng.random() < net.sync_fail_p:
                    net.stat('connect_failed_synchronously')
                    self.so_error = _errno.ENETUNREACH
                    raise OSError(_errno.ENETUNREACH, 'Network is unreachable')
        self.state = 'connecting'
        self.addr = addr
        self.net.start_connect(self, addr)
        raise BlockingIOError(_errno.EINPROGRESS, 'Operation now in progress')

    def bind(self, addr):
        self.net.charge()
        key = (self.host, int(addr[1]))
        if key in self.net.listeners:
            raise OSError(_errno.EADDRINUSE, 'Address already in use')
        self.addr = key

    def listen(self, n):
        self.state = 'listening'
        self.net.listeners[self.addr] = self

    def accept(self):
        self.net.charge()
        if not self.acceptq:
            raise BlockingIOError(_errno.EAGAIN, 'Resource temporarily unavailable')
        s = self.acceptq.pop(0)
        return s, ('10.0.0.%d' % (s.conn.chost + 1), 50000 + s._fd)

    def send(self, data):
        net = self.net
        net.charge()
        if net.doomed(self.host):
            return len(data)        # the process is already dead: nothing reaches the wire
        if self.state != 'connected':
            if self.state == 'connecting':
                raise BlockingIOError(_errno.EAGAIN, 'Resource temporarily unavailable')
            raise OSError(_errno.ENOTCONN, 'Transport endpoint is not connected')
        if self.reset:
            raise ConnectionResetError(_errno.ECONNRESET, 'Connection reset by peer')
        sp = self.tx.space(net.cap)
        if sp <= 0:
            net.stat('eagain_send')
            raise BlockingIOError(_errno.EAGAIN, 'Resource temporarily unavailable')
        n = min(sp, len(data))
        if net.short_write and n > 1:
            # legal short write: the kernel may take fewer bytes than there is room for
            k = net.short_write_len(n)
            if k < n:
                n = k
                net.stat('short_write')
        if n < len(data):
            net.stat('partial_send')
        self.tx.inflight += data[:n]
        self.tx.sent += n
        return n

    def recv(self, n):
        net = self.net
        net.charge()
        if self.state != 'connected':
            raise OSError(_errno.ENOTCONN, 'Transport endpoint is not connected')
        if self.rx.rcv:
            out = bytes(self.rx.rcv[:n])
            del self.rx.rcv[:n]
            return out
        if self.reset:
            raise ConnectionResetError(_errno.ECONNRESET, 'Connection reset by peer')
        if self.rx.fin_delivered:
            return b''
        raise BlockingIOError(_errno.EAGAIN, 'Resource temporarily unavailable')

    def close(self):
        net = self.net
        if self.state == 'closed':
            return
        if net.doomed(self.host):
            # the doomed process' remaining python code runs, but the kernel-level
            # close happens once, at kill time (World.kill does it)
            return
        self._kernel_close()

    def _kernel_close(self):
        net = self.net
        if self.state == 'listening':
            net.listeners.pop(self.addr, None)
            for s in self.acceptq:
                s._kernel_close()
            self.acceptq = []
        elif self.state == 'connecting':
            c = self.conn
            if c is not None and c.state == 'pending':
                c.state = 'failed'
                net.pending.pop(c.cid, None)
        elif self.state == 'connected':
            self.state = 'closed'
            self.tx.fin = True
            self.rx.reader_closed = True
            if self.rx.rcv and not self.reset:
                # closing with unread data -> RST instead of FIN
                self.tx.rst_pending = True
            self.rx.rcv = bytearray()
            if net.socks.pop(self._fd, None) is self:
                net.release_fd(self._fd, self.host)
            net._gc(self.tx)
            return
        self.state = 'closed'
        if net.socks.pop(self._fd, None) is self:
            net.release_fd(self._fd, self.host)

    # -- readiness ---------------------------------------------------------------
    def ready(self):
        st = self.state
        if st == 'listening':
            return R if self.acceptq else 0
        if st == 'connecting':
            if self.so_error:
                return E | W
            return 0
        if st == 'connected':
            m = 0
            if self.reset:
                return R | W | E
            if self.rx.rcv or self.rx.fin_delivered:
                m |= R
            if self.tx.space(self.net.cap) > 0:
                m |= W
            return m
        return 0

    def become_reset(self, err=_errno.ECONNRESET):
        if self.state == 'connected' and not self.reset:
            self.reset = True
            self.so_error = err
            # bytes still travelling to a reset socket are dropped
            self.rx.inflight = bytearray()
            self.rx.rst_pending = False


class SimPoller(object):
    def __init__(self, net, host):
        self.net = net
        self.host = host
        self.subs = {}

    def subscribe(self, descr, callback, eventMask):
        self.subs[descr] = (callback, eventMask)

    def unsubscribe(self, descr):
        self.subs.pop(descr, None)

    def poll(self, timeout):
        net = self.net
        net.charge()
        socks = net.socks
        readylist = []
        for fd in sorted(self.subs):
            cb, mask = self.subs[fd]
            s = socks.get(fd)
            if s is None:
                continue
            m = s.ready() & (mask | E)
            if m:
                readylist.append((fd, cb, m))
        if net.poll_shuffle and len(readylist) > 1:
            net.shuffle(readylist)
        for fd, cb, m in readylist:
            # like select.poll: the event list is computed first, callbacks are
            # looked up at dispatch time
            cur = self.subs.get(fd)
            if cur is None:
                continue
            cur[0](fd, m)


# -- the repository's own pollers over a simulated `select` module ------------------------------------
POLLIN, POLLPRI, POLLOUT, POLLERR, POLLHUP, POLLNVAL = 1, 2, 4, 8, 16, 32


class FakePoll(object):
    """select.poll() work-alike: level-triggered, events computed at the call from the descriptor NUMBERS
    registered (a closed descriptor that is still registered yields POLLNVAL, a re-used number is the new socket)."""

    def __init__(self):
        self.reg = {}

    def register(self, fd, eventmask=POLLIN | POLLPRI | POLLOUT):
        self.reg[fd] = eventmask

    def modify(self, fd, eventmask):
        if fd not in self.reg:
            raise OSError(_errno.ENOENT, 'No such file or directory')
        self.reg[fd] = eventmask

    def unregister(self, fd):
        del self.reg[fd]

    def poll(self, timeout=None):
        net = CTX.world.net
        net.charge()
        out = []
        for fd, mask in list(self.reg.items()):
            s = net.socks.get(fd)
            if s is None:
                out.append((fd, POLLNVAL))
                continue
            m = s.ready()
            ev = 0
            if m & R:
                ev |= POLLIN
            if m & W:
                ev |= POLLOUT
            ev &= mask
            if m & E:
                ev |= POLLERR | POLLHUP
            if ev:
                out.append((fd, ev))
        if net.poll_shuffle and len(out) > 1:
            net.shuffle(out)
        return out


class FakeSelectModule(object):
    """What pysyncobj.poller uses of the `select` module."""
    POLLIN, POLLPRI, POLLOUT, POLLERR, POLLHUP, POLLNVAL = POLLIN, POLLPRI, POLLOUT, POLLERR, POLLHUP, POLLNVAL
    error = OSError

    @staticmethod
    def poll():
        return FakePoll()

    @staticmethod
    def select(rlist, wlist, xlist, timeout=None):
        net = CTX.world.net
        net.charge()
        rr, ww = [], []
        for lst, bit, out in ((rlist, R, rr), (wlist, W, ww)):
            for fd in lst:
                s = net.socks.get(fd)
                if s is None:
                    raise OSError(_errno.EBADF, 'Bad file descriptor')
                m = s.ready()
                # a pending error makes a socket readable and writable; the third list is for out-of-band data only
                if m & bit or m & E:
                    out.append(fd)
        for fd in xlist:
            if net.socks.get(fd) is None:
                raise OSError(_errno.EBADF, 'Bad file descriptor')
        if net.poll_shuffle:
            if len(rr) > 1:
                net.shuffle(rr)
            if len(ww) > 1:
                net.shuffle(ww)
        return rr, ww, []


def create_poller(pollerType):
    w = CTX.world
    kind = w.net.poller_kind
    if kind == 'sim':
        return SimPoller(w.net, w.cur)
    from .boot import M
    if kind == 'poll':
        return M.pl.PollPoller()
    if kind == 'select':
        return M.pl.SelectPoller()
    raise ValueError(kind)


class Net(object):
    def __init__(self, world, cap=1 << 16):
        self.world = world
        self.cap = cap
        self._fd = 1000
        self.fd_reuse = False
        self._free = {}
        self._next = {}
        self.poller_kind = 'sim'
        self.sync_fail_p = 0.0
        self._pair = {}
        self.socks = {}
        self.listeners = {}      # (host, port) -> SimSocket
        self.pending = {}        # cid -> Conn (insertion ordered)
        self.conns = {}          # cid -> Conn (open)
        self.pipes = {}          # pid -> Pipe
        self.cpu_cost = 2e-5
        self.poll_shuffle = False
        self.short_write = False
        self.stats = {}
        self.port_to_host = {}
        self.blocked = None      # callable (a, b) -> bool : partitioned?

    def new_fd(self, host=None):
        if self.fd_reuse and host is not None:
            # like a kernel: the lowest free descriptor number of the process (each simulated host has a number
            # range of its own, so descriptors stay unique across the processes of one simulation)
            free = self._free.get(host)
            if free:
                import heapq
                return heapq.heappop(free)
            n = self._next.get(host, 0)
            self._next[host] = n + 1
            return 100000 * (host + 1) + n
        self._fd += 1
        return self._fd

    def release_fd(self, fd, host):
        if self.fd_reuse:
            import heapq
            heapq.heappush(self._free.setdefault(host, []), fd)

    def charge(self):
        self.world.T += self.cpu_cost

    def stat(self, k, n=1):
        self.stats[k] = self.stats.get(k, 0) + n

    def doomed(self, host):
        return self.world.hosts[host].doomed

    def shuffle(self, lst):
        self.world.net_rng.shuffle(lst)

    def short_write_len(self, n):
        return self.world.net_rng.randint(1, n)

    def start_connect(self, sock, addr):
        shost = self.port_to_host.get(int(addr[1]))
        k = self._pair.get((sock.host, shost), 0) + 1
        self._pair[(sock.host, shost)] = k
        cid = 'c%s>%s#%d' % (sock.host, shost, k)
        c = Conn(cid, sock.host, shost, int(addr[1]), sock, self.world.T)
        sock.conn = c
        if self.doomed(sock.host):
            c.state = 'failed'
            return
        self.pending[cid] = c

    # -- scheduler-driven transitions -------------------------------------------
    def resolve_connect(self, cid, how):
        """how: 'ok' | 'refuse' | 'timeout'. Returns what happened."""
        c = self.pending.pop(cid, None)
        if c is None:
            return 'gone'
        s = c.csock
        if how == 'ok':
            l = self.listeners.get((c.shost, c.port)) if c.shost is not None else None
            if l is None:
                how = 'refuse'
            else:
                srv = SimSocket(self, c.shost)
                srv.conn = c
                a = Pipe(c.cid + '/0', c)
                b = Pipe(c.cid + '/1', c)
                a.writer, a.reader = s, srv
                b.writer, b.reader = srv, s
                s.tx, srv.rx = a, a
                s.rx, srv.tx = b, b
                s.state = srv.state = 'connected'
                c.ssock = srv
                c.p_cs, c.p_sc = a, b
                c.state = 'open'
                l.acceptq.append(srv)
                self.conns[c.cid] = c
                self.pipes[a.pid] = a
                self.pipes[b.pid] = b
                self.stat('connect_ok')
                return 'ok'
        c.state = 'failed'
        if how == 'refuse':
            s.so_error = _errno.ECONNREFUSED
            self.stat('connect_refused')
        else:
            s.so_error = _errno.ETIMEDOUT
            self.stat('connect_timeout')
        return how

    def deliver(self, pid, n):
        """Move up to n in-flight bytes into the reader's buffer (n<=0: everything).
        Control segments (FIN, RST) follow the data."""
        p = self.pipes.get(pid)
        if p is None or p.dead:
            return 'gone'
        if p.reader_closed:
            had = len(p.inflight)
            p.inflight = bytearray()
            p.rst_pending = False
            if had and p.writer.state == 'connected':
                p.writer.become_reset()
                self.stat('rst_bounced')
            self._gc(p)
            return 'bounced' if had else 'void'
        if p.inflight:
            if n <= 0 or n >= len(p.inflight):
                n = len(p.inflight)
            p.rcv += p.inflight[:n]
            del p.inflight[:n]
            p.delivered += n
            if p.inflight:
                return 'part'
        if p.rst_pending:
            p.rst_pending = False
            if p.reader.state == 'connected':
                p.reader.become_reset()
                self.stat('rst_delivered')
            self._gc(p)
            return 'rst'
        if p.fin and not p.fin_delivered:
            p.fin_delivered = True
            self.stat('fin_delivered')
        self._gc(p)
        return 'ok'

    def _gc(self, p):
        c = p.conn
        if p.writer.state == 'closed' and p.reader.state == 'closed':
            # both endpoints are gone: nothing on this connection can matter any more
            c.p_cs.dead = True
            c.p_sc.dead = True
        if c.p_cs.dead and c.p_sc.dead:
            self.conns.pop(c.cid, None)
            self.pipes.pop(c.p_cs.pid, None)
            self.pipes.pop(c.p_sc.pid, None)

    def inject_reset(self, cid, side):
        """A reset hits one endpoint now; the other endpoint learns of it when the
        RST (travelling on the pipe towards it) is delivered, or when its own
        bytes bounce."""
        c = self.conns.get(cid)
        if c is None:
            return 'gone'
        a, b = (c.csock, c.ssock) if side == 0 else (c.ssock, c.csock)
        if a.state != 'connected' or a.reset:
            return 'noop'
        a.become_reset()
        # towards b
        a.tx.inflight = bytearray()
        a.tx.rst_pending = True
        # b's bytes now bounce
        a.rx.reader_closed = True
        self.stat('reset_injected')
        return 'ok'

    def keepalive_total(self, sock):
        """Seconds of silence after which the kernel resets an unreachable peer's connection
        (TCP_KEEPIDLE + TCP_KEEPINTVL * TCP_KEEPCNT), or None when SO_KEEPALIVE is not set."""
        o = sock.opts
        if not o.get((_real.SOL_SOCKET, _real.SO_KEEPALIVE)):
            return None
        try:
            return (o.get((_real.IPPROTO_TCP, _real.TCP_KEEPIDLE), 7200) +
                    o.get((_real.IPPROTO_TCP, _real.TCP_KEEPINTVL), 75) * o.get((_real.IPPROTO_TCP, _real.TCP_KEEPCNT), 9))
        except AttributeError:
            return None

    def keepalive_due(self, blocked_since, now):
        """[(cid, side)] of endpoints whose keep-alive has expired; blocked_since: cid -> time the path went dark."""
        out = []
        for cid, c in self.conns.items():
            t0 = blocked_since.get(cid)
            if t0 is None:
                continue
            for side, s in ((0, c.csock), (1, c.ssock)):
                if s is None or s.state != 'connected' or s.reset:
                    continue
                ka = self.keepalive_total(s)
                if ka is not None and now - t0 > ka:
                    out.append((cid, side))
        return out

    def kernel_close_host(self, host):
        """Process death: the kernel closes every socket of the host."""
        for fd in sorted(self.socks):
            s = self.socks.get(fd)
            if s is not None and s.host == host:
                s._kernel_close()

    def live_pipes(self):
        blocked = self.blocked
        out = []
        for pid, p in self.pipes.items():
            if p.held or not p.has_work():
                continue
            if blocked is not None and blocked(p.writer.host, p.reader.host):
                continue
            out.append(pid)
        return out

    def backlog(self):
        tot = 0
        for p in self.pipes.values():
            tot += len(p.inflight) + len(p.rcv)
        return tot


def make_socket_module():
    mod = types.ModuleType('simsocket')
    for k in dir(_real):
        if k.isupper() or k in ('error', 'errno', 'inet_aton', 'inet_pton', 'timeout', 'gaierror', 'herror'):
            setattr(mod, k, getattr(_real, k))

    def socket(family=None, type=None, *a):
        w = CTX.world
        return SimSocket(w.net, w.cur)
    mod.socket = socket
    return mod
