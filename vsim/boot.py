"""Process bootstrap: PYTHONHASHSEED pinning, repository import, seam installation.

Every entry point calls ensure_env() first.  Seams are module globals of the
repository's modules, rebound once per process to functions that delegate to the
*current world* (CTX.world); a run creates a fresh World and assigns it.
Nothing under /repo is edited.
"""
import os
import sys
import types
import logging

GUARD = 'PYSYNCOBJ_VERIF'


class HarnessError(Exception):
    """The harness (not the code under test) is broken or out of date."""


def ensure_env():
    """Re-exec with PYTHONHASHSEED=0 so set/dict order of str-keyed objects is fixed."""
    want = os.environ.get('VERIF_HASHSEED', '0')
    if os.environ.get('PYTHONHASHSEED') != want:
        os.environ['PYTHONHASHSEED'] = want
        os.environ[GUARD] = '1'
        os.execv(sys.executable, [sys.executable] + sys.argv)
    os.environ[GUARD] = '1'


REPO = os.environ.get('VERIF_REPO', '/repo')


class Ctx(object):
    world = None


CTX = Ctx()
_installed = False
M = types.SimpleNamespace()      # repository modules


def _mono():
    return CTX.world.mono()


class _TimeShim(object):
    """Stands in for the `time` module inside the repository's modules."""

    @staticmethod
    def time():
        return CTX.world.wall()

    @staticmethod
    def sleep(d):
        CTX.world.sleep(d)

    @staticmethod
    def monotonic():
        return CTX.world.mono()


class _Resolver(object):
    def setTimeouts(self, *a):
        pass

    def setPreferredAddrFamily(self, *a):
        pass

    def resolve(self, h):
        return h


_resolver = _Resolver()


def _globalDnsResolver():
    return _resolver


class _RandomShim(object):
    """`random` module stand-in: delegates to the current host's seeded Random."""

    def random(self):
        return CTX.world.host_rng().random()

    def choice(self, seq):
        return CTX.world.host_rng().choice(seq)

    def randint(self, a, b):
        return CTX.world.host_rng().randint(a, b)

    def uniform(self, a, b):
        return CTX.world.host_rng().uniform(a, b)

    def getrandbits(self, k):
        # a stream of its own (identifiers): the stream behind the timers stays what it was
        return CTX.world.host_rng_aux().getrandbits(k)


def install():
    """Import the repository from REPO and rebind every seam. Idempotent."""
    global _installed
    if _installed:
        return M
    if REPO not in sys.path:
        sys.path.insert(0, REPO)
    logging.disable(logging.CRITICAL)
    import pysyncobj
    if not os.path.abspath(pysyncobj.__file__).startswith(os.path.abspath(REPO) + os.sep):
        raise HarnessError('pysyncobj imported from %s, expected under %s' % (pysyncobj.__file__, REPO))
    import pysyncobj.syncobj as so
    import pysyncobj.transport as tr
    import pysyncobj.tcp_connection as tc
    import pysyncobj.tcp_server as ts
    import pysyncobj.dns_resolver as dr
    import pysyncobj.node as nd
    import pysyncobj.journal as jr
    import pysyncobj.serializer as sr
    import pysyncobj.batteries as bt
    import pysyncobj.utility as ut
    import pysyncobj.poller as pl
    import pysyncobj.config as cf
    import pysyncobj.fast_queue as fq
    import pysyncobj.pickle as pk
    M.so, M.tr, M.tc, M.ts, M.dr, M.nd, M.jr, M.sr, M.bt, M.ut, M.pl, M.cf, M.fq, M.pk = \
        so, tr, tc, ts, dr, nd, jr, sr, bt, ut, pl, cf, fq, pk
    M.pysyncobj = pysyncobj

    from . import net as simnet
    from . import fs as simfs

    # clocks
    for m in (so, tr, tc, dr):
        if not hasattr(m, 'monotonicTime'):
            raise HarnessError('seam monotonicTime missing in %s' % m.__name__)
        m.monotonicTime = _mono
    tshim = _TimeShim()
    for m in (so, tr, bt, ut, tc, dr):
        if hasattr(m, 'time'):
            m.time = tshim
    # randomness
    rshim = _RandomShim()
    for m in (so, tr, dr):
        if hasattr(m, 'random'):
            m.random = rshim
    # dns
    so.globalDnsResolver = _globalDnsResolver
    tr.globalDnsResolver = _globalDnsResolver
    nd.globalDnsResolver = _globalDnsResolver
    # sockets + poller
    sockmod = simnet.make_socket_module()
    tc.socket = sockmod
    ts.socket = sockmod
    pl.select = simnet.FakeSelectModule
    so.createPoller = simnet.create_poller
    ut.createPoller = simnet.create_poller
    so.PIPE_NOTIFIER_ENABLED = False
    # files
    simfs.install_seams(jr, sr, so)
    _installed = True
    return M


def priv(obj, cls, name):
    """Read a name-mangled private attribute; a missing one is a harness error."""
    try:
        return getattr(obj, '_%s__%s' % (cls.lstrip('_'), name))
    except AttributeError:
        raise HarnessError('private attribute %s.__%s not found (harness out of date)' % (cls, name))
