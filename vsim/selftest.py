"""./check selftest [quick|full]: determinism of the simulator and fidelity of the SimFS mmap work-alike.

1. determinism: N seeds per engine, each run twice in different worker processes and at two
   worker counts; the digests of the executed event/state logs must be identical;
2. hash-seed independence of verdicts: the stored replays are re-run in a fresh interpreter
   under another PYTHONHASHSEED; 'known' ones must still reproduce, 'fixed' ones must not;
3. SimMmap vs the real mmap on real temporary files: same operation sequences, same bytes,
   same exceptions.
"""
import os
import sys
import json
import random
import tempfile
import subprocess
import multiprocessing
from concurrent.futures import ProcessPoolExecutor

from . import runner
from .boot import HarnessError

ENGINES = ['C01', 'C06', 'C09', 'C10', 'C16', 'C13', 'C08', 'C15', 'C17', 'C19']


def _digest(args):
    pid, seed, k = args
    mod = runner.prop_module(pid)
    if getattr(mod, 'WANTS_K', False):
        r = mod.run(seed, 'quick', k=k)
    else:
        r = mod.run(seed, 'quick')
    return pid, seed, r.get('digest'), len(r.get('violations') or []), r.get('aborted')


def determinism(nseeds):
    bad = 0
    ctx = multiprocessing.get_context('fork')
    jobs = []
    for pid in ENGINES:
        for k in range(nseeds):
            jobs.append((pid, runner.derive_seed(424242, k), k))
    res = {}
    for workers in (4, 16):
        with ProcessPoolExecutor(max_workers=workers, mp_context=ctx) as ex:
            out = list(ex.map(_digest, jobs + jobs, chunksize=1))
        for pid, seed, dig, nv, ab in out:
            if ab:
                continue          # stopped for a resource reason: not comparable
            res.setdefault((pid, seed), set()).add((dig, nv))
    for key, vals in sorted(res.items()):
        if len(vals) != 1:
            bad += 1
            print('NONDETERMINISTIC %s seed %d: %r' % (key[0], key[1], sorted(vals)))
    print('determinism: %d (engine, seed) pairs, each run 4 times in different processes at 2 worker counts: %d divergent' % (len(res), bad))
    return bad


def hashseed_replays():
    here = runner.VERIF
    known = runner.load_known()
    bad = 0
    n = 0
    for k in known:
        if not k.get('replay'):
            continue
        path = os.path.join(here, k['replay'])
        env = dict(os.environ, VERIF_HASHSEED='1')
        env.pop('PYTHONHASHSEED', None)
        r = subprocess.run([sys.executable, os.path.join(here, 'simcheck.py'), 'replay', path], env=env, stdout=subprocess.PIPE, stderr=subprocess.STDOUT, text=True, timeout=900)
        n += 1
        want = 1 if k['status'] == 'known' else 0
        got = r.returncode
        if k['status'] == 'fixed' and got == 1:
            # a fixed replay may trip over ANOTHER invariant of the property; only the stored one counts
            doc = json.load(open(path))
            if ("  %s:" % doc['violation']['inv']) not in r.stdout:
                got = 0
        if got != want:
            bad += 1
            print('HASHSEED-DEPENDENT %s (%s): exit %d, expected %d' % (k['id'], k['status'], r.returncode, want))
    print('hash seed: %d stored replays re-run under PYTHONHASHSEED=1: %d unexpected verdicts' % (n, bad))
    return bad


def mmap_differential(nseq):
    import mmap as realmmap
    from .fs import FS, SimFile, SimMmap
    bad = 0
    rng = random.Random(7)
    for s in range(nseq):
        d = tempfile.mkdtemp(prefix='vsim_mm_')
        path = os.path.join(d, 'f')
        init = bytes(rng.randrange(256) for _ in range(rng.choice([1, 10, 64])))
        with open(path, 'wb') as f:
            f.write(init)
        rf = open(path, 'r+b')
        rm = realmmap.mmap(rf.fileno(), 0)
        fs = FS(0)
        fs.cost = 0
        fs.files['f'] = bytearray(init)
        sf = SimFile(fs, 'f', 'r+b')
        sm = SimMmap(fs, sf.fileno(), 0)
        for _ in range(30):
            op = rng.choice(['set', 'get', 'resize', 'size'])
            try:
                if op == 'size':
                    a, b = rm.size(), sm.size()
                elif op == 'resize':
                    n = rng.choice([1, 5, 64, 200, 1024])
                    a = rm.resize(n)
                    b = sm.resize(n)
                    a = b = None
                elif op == 'get':
                    o, l = rng.randrange(0, 80), rng.randrange(0, 40)
                    a, b = rm[o:o + l], sm[o:o + l]
                else:
                    o, l = rng.randrange(0, 80), rng.randrange(0, 40)
                    v = bytes(rng.randrange(256) for _ in range(l))
                    ea = eb = None
                    try:
                        rm[o:o + l] = v
                    except Exception as e:
                        ea = type(e).__name__
                    try:
                        sm[o:o + l] = v
                    except Exception as e:
                        eb = type(e).__name__
                    a, b = ea, eb
                if a != b:
                    bad += 1
                    print('MMAP-DIFF seq %d op %s: real %r sim %r' % (s, op, a, b))
                    break
                if bytes(rm[:]) != bytes(sm[:]):
                    bad += 1
                    print('MMAP-DIFF seq %d after %s: contents differ' % (s, op))
                    break
            except Exception as e:
                bad += 1
                print('MMAP-DIFF seq %d op %s raised %r' % (s, op, e))
                break
        rm.close()
        rf.close()
        os.remove(path)
        os.rmdir(d)
    # mapping an empty file
    d = tempfile.mkdtemp(prefix='vsim_mm_')
    path = os.path.join(d, 'e')
    open(path, 'wb').close()
    rf = open(path, 'r+b')
    try:
        realmmap.mmap(rf.fileno(), 0)
        ra = None
    except Exception as e:
        ra = type(e).__name__
    fs = FS(0)
    fs.files['e'] = bytearray()
    sf = SimFile(fs, 'e', 'r+b')
    try:
        SimMmap(fs, sf.fileno(), 0)
        sa = None
    except Exception as e:
        sa = type(e).__name__
    if ra != sa:
        bad += 1
        print('MMAP-DIFF empty file: real %r sim %r' % (ra, sa))
    rf.close()
    os.remove(path)
    os.rmdir(d)
    print('mmap work-alike: %d random sequences + empty-file case against the real mmap: %d differences' % (nseq, bad))
    return bad


def main(argv):
    mode = argv[0] if argv else 'quick'
    bad = 0
    bad += mmap_differential(200 if mode == 'quick' else 2000)
    bad += determinism(3 if mode == 'quick' else 12)
    if mode != 'quick':
        bad += hashseed_replays()
    if bad:
        print('HARNESS-ERROR selftest failed (%d problems)' % bad)
        return 2
    print('selftest ok')
    return 0
