"""Reference models and invariants for cluster runs (see DESIGN.md section 4).

G is the cluster-wide sequence position -> (command, idx, term), filled from
*reported commits*.  Every invariant has a name and belongs to one property; a
check reports only the invariants of its own property, the others are counted.
"""
from .boot import priv, HarnessError, M

FOLLOWER, CANDIDATE, LEADER = 0, 1, 2

INV_PROP = {
    # C01
    'apply_conflict': 'C01', 'apply_order': 'C01', 'apply_skip': 'C01', 'apply_tag_mismatch': 'C01',
    'state_mismatch': 'C01', 'applied_not_committed': 'C01',
    # C02
    'cb_twice': 'C02', 'success_not_committed': 'C02', 'success_wrong_result': 'C02',
    'failed_but_committed': 'C02', 'dup_in_G': 'C02',
    # C03
    'two_leaders': 'C03', 'leader_incomplete': 'C03', 'double_vote': 'C03',
    # C04
    'commit_back': 'C04', 'applied_back': 'C04', 'not_majority': 'C04', 'commit_conflict': 'C04',
    'committed_entry_changed': 'C04', 'log_matching': 'C04', 'leader_commit_old_term': 'C04',
    # C05
    'no_convergence': 'C05',
    'log_empty': 'C09', 'log_gap': 'C09', 'sent_entry_not_in_log': 'C11',
}


class Violation(object):
    __slots__ = ('inv', 'prop', 'msg', 'evno', 'detail')

    def __init__(self, inv, prop, msg, evno, detail=None):
        self.inv, self.prop, self.msg, self.evno, self.detail = inv, prop, msg, evno, detail

    def as_dict(self):
        return dict(inv=self.inv, prop=self.prop, msg=self.msg, evno=self.evno, detail=self.detail)


def log_of(node):
    return priv(node, 'SyncObj', 'raftLog')


def log_entry(log, p):
    base = log[0][1]
    k = p - base
    if k < 0 or k >= len(log):
        return None
    e = log[k]
    if e[1] != p:
        # the log is not contiguous - look it up the slow way
        for e in log[:]:
            if e[1] == p:
                return e
        return None
    return e


def norm(e):
    c = e[0]
    if not isinstance(c, bytes):
        c = c.encode('latin-1') if isinstance(c, str) else bytes(c)
    return (c, e[1], e[2])


class HostView(object):
    """What the oracle remembers about one host across events (per incarnation)."""

    def __init__(self):
        self.commit = 1
        self.applied = 1
        self.term = 0
        self.state = FOLLOWER
        self.sig = None
        self.exec_pos = 0          # highest position whose command this incarnation executed
        self.last_log = None       # copy of the log at kill time (presumed durable)
        self.up = False


class RaftOracle(object):
    def __init__(self, world, app, members=None):
        self.w = world
        self.app = app
        self.G = {}                # pos -> (cmd, idx, term)
        self.Gdec = {}             # pos -> decoded
        self.Gtag = {}             # tag -> pos
        self.Gterm = {}            # pos -> current term of the node that first reported it committed
        self.states = {1: app.model.INIT}
        self.results = {}
        self.raised = {}
        self.model_top = 1
        self.A = {}                # pos -> tag (first apply anywhere)
        self.views = dict((h.idx, HostView()) for h in world.hosts)
        self.violations = []
        self.seen_inv = set()
        self.leaders = {}          # term -> host idx
        self.subs = {}             # tag -> (host idx, evno, method)
        self.cbs = {}              # tag -> [(res, err, evno)]
        self.failed_tags = {}      # tag -> err (fail kinds that promise 'never applied')
        self.success_tags = {}     # tag -> result
        self.commits = 0
        self.commit_events = 0
        self.commits_after_fault = 0
        self.leader_changes = 0
        self.terms_with_candidate = set()
        self.check_log_matching = True
        self.majority_of = None    # optional callable(host) -> list of voter host idx
        self.first_violation_evno = None
        self.stop_on = None        # set of invariant names that stop the run
        self.tainted_from = None
        self.n_state_checks = 0
        self.n_majority_checks = 0

    # -- reporting ----------------------------------------------------------------
    def flag(self, inv, msg, detail=None):
        prop = INV_PROP.get(inv, '?')
        if inv in self.seen_inv:
            return
        if self.seen_inv:
            # which invariants had fired earlier in this run (a known finding's consequences are matched by it)
            detail = dict(detail or {})
            detail.setdefault('after', sorted(self.seen_inv))
        self.seen_inv.add(inv)
        v = Violation(inv, prop, msg, self.w.evno, detail)
        self.violations.append(v)
        if self.first_violation_evno is None:
            self.first_violation_evno = self.w.evno

    # -- lifecycle hooks ----------------------------------------------------------
    def on_start(self, host):
        v = self.views[host.idx] = HostView()
        v.up = True
        n = host.node
        v.commit = 1
        v.applied = n.raftLastApplied
        v.exec_pos = 0
        self._observe(host, fresh=True)

    def on_kill(self, host):
        v = self.views[host.idx]
        v.up = False
        if host.node is not None:
            node = host.node
            if host.doomed:
                # killed in the middle of an event: commit-index advances made earlier in this very
                # event were real; at a storage-op instant entries <= commit index are in the log
                log = log_of(node)
                if len(log):
                    c = node.raftCommitIndex
                    # (role, term) read at a kill instant need not be the pair under which the commit index was
                    # advanced earlier in this event (a kill between "term := t+1" and "role := follower"), so the
                    # leader-only rules are not evaluated here: role is passed as unknown
                    self._record_commits(host, node, log, v, c, -1, node.raftCurrentTerm)
                    v.commit = max(v.commit, c)
            try:
                v.last_log = [norm(e) for e in log_of(host.node)[:]]
            except HarnessError:
                raise
            except Exception:
                v.last_log = None

    def on_submit(self, tag, host, meth):
        self.subs[tag] = (host.idx, self.w.evno, meth, host.inc)

    def on_state(self, host, old, new):
        """Called synchronously from conf.onStateChanged (inside a tick)."""
        node = host.node
        if node is None:
            return
        if new == CANDIDATE:
            self.terms_with_candidate.add(node.raftCurrentTerm + 1)
        if new == LEADER:
            term = node.raftCurrentTerm
            self.leader_changes += 1
            prev = self.leaders.get(term)
            if prev is not None and prev != host.idx:
                self.flag('two_leaders', 'hosts %d and %d both lead term %d' % (prev, host.idx, term))
            self.leaders[term] = host.idx
            # leader completeness: every reported-committed entry is in its log or snapshot
            log = log_of(node)
            if len(log) == 0:
                return
            base = log[0][1]
            last = log[-1][1]
            G = self.G
            Gterm = self.Gterm
            for p in G:
                if self.tainted_from is not None and p >= self.tainted_from:
                    continue
                if p < base:
                    continue
                if Gterm.get(p, 0) >= term:
                    # committed under a leader of this or a later term: a node that wins an older term from
                    # delayed vote replies is a stale leader, which the statement allows (it speaks of commands
                    # committed under leaders of EARLIER terms)
                    self.w.probe('stale_leader_elected_after_newer_commit')
                    continue
                e = log_entry(log, p) if p <= last else None
                if e is None or norm(e) != G[p]:
                    self.flag('leader_incomplete',
                              'host %d becomes leader of term %d without committed entry %d' % (host.idx, term, p),
                              dict(pos=p, have=repr(e)[:80], want=repr(G[p])[:80]))
                    break

    # -- the per-event check --------------------------------------------------------
    def after_event(self, ev, out, touched):
        w = self.w
        if touched is not None:
            host = w.hosts[touched]
            if host.node is not None:
                self._observe(host)
        if w.step_callbacks:
            self._callbacks(w.step_callbacks)

    def _observe(self, host, fresh=False):
        w = self.w
        node = host.node
        v = self.views[host.idx]
        log = log_of(node)
        if len(log) == 0:
            # the node emptied its own log (every later tick raises IndexError): recorded, judged by C09
            w.probe('log_empty')
            self.flag('log_empty', 'host %d has an empty log' % host.idx)
            return
        commit = node.raftCommitIndex
        applied = node.raftLastApplied
        term = node.raftCurrentTerm
        state = priv(node, 'SyncObj', 'raftState')
        if log[0][1] > applied and not fresh and not priv(node, 'SyncObj', 'needLoadDumpFile'):
            # whatever compaction and snapshot installation do, the log keeps the entry at the applied position (the
            # snapshot's last entry): a log that starts beyond it has lost entries the node has not executed
            self.flag('log_gap', 'host %d: its log starts at position %d but it has applied only up to %d: the entries in between are gone' % (
                host.idx, log[0][1], applied), dict(host=host.idx))
        # C04 (a): indices monotone within an incarnation
        if not fresh:
            if commit < v.commit:
                self.flag('commit_back', 'host %d commit index %d -> %d' % (host.idx, v.commit, commit))
            loads = [l for l in w.step_loads if l[0] == host.idx]
            if applied < v.applied:
                self.flag('applied_back', 'host %d applied index %d -> %d' % (host.idx, v.applied, applied),
                          dict(loads=loads))
        else:
            loads = [l for l in w.step_loads if l[0] == host.idx]
        if state == LEADER:
            prev = self.leaders.get(term)
            if prev is not None and prev != host.idx:
                self.flag('two_leaders', 'hosts %d and %d both lead term %d' % (prev, host.idx, term))
            self.leaders[term] = host.idx
        # commits -> G
        self._record_commits(host, node, log, v, commit, state, term, fresh)
        # C04 (c): committed entries this node still holds equal G
        sig = (log[0][1], log[-1][1], log[-1][2], len(log))
        if sig != v.sig or commit != v.commit:
            v.sig = sig
            base = sig[0]
            G = self.G
            top = min(commit, sig[1])
            ents = log[:]
            for e in ents:
                p = e[1]
                if p > top:
                    break
                g = G.get(p)
                if g is not None and norm(e) != g:
                    self.flag('committed_entry_changed',
                              'host %d holds a different entry at committed position %d' % (host.idx, p),
                              dict(pos=p, have=repr(e)[:100], known=repr(g)[:100]))
                    break
            if self.check_log_matching:
                self._log_matching(host, ents)
        # C01: applies
        self._applies(host, node, v, applied, loads)
        v.commit, v.applied, v.term, v.state = commit, applied, term, state

    def _record_commits(self, host, node, log, v, commit, state, term, fresh=False):
        w = self.w
        if commit > v.commit or fresh:
            lo = (v.commit if not fresh else 1)
            if commit > lo:
                self.commit_events += 1
                if w.nfaults:
                    self.commits_after_fault += 1
            newly = []
            for p in range(lo + 1, commit + 1):
                e = log_entry(log, p)
                if e is None:
                    continue
                e = norm(e)
                g = self.G.get(p)
                if g is None:
                    self.G[p] = e
                    self.Gterm[p] = term
                    newly.append(p)
                    self.commits += 1
                    self._index_G(p, e)
                elif g != e:
                    self.flag('commit_conflict',
                              'host %d reports position %d committed with a different entry' % (host.idx, p),
                              dict(pos=p, have=repr(e)[:100], known=repr(g)[:100]))
                    if self.tainted_from is None:
                        self.tainted_from = p
            if newly:
                if state == 2 and self.G[newly[-1]][2] != term:
                    # reach probe: a leader decided a position whose entry is of an older term without an entry of its
                    # own term on top (Raft 5.4.2 forbids it; zero on the pinned tree)
                    w.probe('leader_decided_old_term_entry')
                self._majority(host, node, log, newly, state, term)

    def _index_G(self, p, e):
        d = self.app.decode(e[0])
        self.Gdec[p] = d
        if d[0] == 'regular':
            tag = d[2][0] if d[2] else None
            if tag is not None:
                if tag in self.Gtag and self.Gtag[tag] != p:
                    self.flag('dup_in_G', 'command %r committed at positions %d and %d' % (tag, self.Gtag[tag], p))
                self.Gtag.setdefault(tag, p)
                if tag in self.failed_tags:
                    self.flag('failed_but_committed',
                              'command %r was reported failed (%s) but is committed at %d' % (tag, self.failed_tags[tag], p))

    def _members_for(self, host):
        if self.majority_of is not None:
            return self.majority_of(host)
        return [h.idx for h in self.w.hosts if not h.readonly and h.member]

    def _majority(self, host, node, log, newly, state, term):
        w = self.w
        members = self._members_for(host)
        need = len(members) // 2 + 1
        others = []
        for i in members:
            h = w.hosts[i]
            if h.node is not None and (not h.doomed or h is host):
                # (a reporter that is being killed at this very storage op still counts with the log it holds)
                ol = log_of(h.node)
                others.append((i, ol, ol[0][1], ol[-1][1], None))
            else:
                ll = self.views[i].last_log
                if ll:
                    others.append((i, None, ll[0][1], ll[-1][1], ll))
        for p in newly:
            self.n_majority_checks += 1
            want = self.G[p]
            cnt = 0
            for i, ol, base, last, ll in others:
                if p < base:
                    cnt += 1          # compacted away => applied => it was committed there
                    continue
                if p > last:
                    continue
                if ol is not None:
                    e = log_entry(ol, p)
                else:
                    e = ll[p - base] if 0 <= p - base < len(ll) else None
                if e is not None and norm(e) == want:
                    cnt += 1
            if cnt < need:
                self.flag('not_majority',
                          'host %d reports position %d committed while %d of %d voters hold it' % (host.idx, p, cnt, len(members)),
                          dict(pos=p, entry=repr(want)[:100], reporter_state=state))
                break
        if state == LEADER:
            top = newly[-1]
            if self.G[top][2] != term:
                self.flag('leader_commit_old_term',
                          'leader %d (term %d) advanced its commit index to %d whose entry has term %d' % (host.idx, term, top, self.G[top][2]))

    def _log_matching(self, host, ents):
        w = self.w
        mine = dict((e[1], e) for e in ents)
        for h in w.hosts:
            if h.idx == host.idx or h.node is None or h.readonly and False:
                continue
            ol = log_of(h.node)[:]
            # highest common position with equal term
            anchor = None
            for e in reversed(ol):
                m = mine.get(e[1])
                if m is not None and m[2] == e[2]:
                    anchor = e[1]
                    break
            if anchor is None:
                continue
            for e in ol:
                if e[1] > anchor:
                    break
                m = mine.get(e[1])
                if m is not None and norm(m) != norm(e):
                    self.flag('log_matching',
                              'hosts %d and %d agree on (index %d) term but differ at lower position %d' % (host.idx, h.idx, anchor, e[1]))
                    return

    def _extend_model(self, upto):
        G = self.G
        while self.model_top < upto:
            p = self.model_top + 1
            if p not in G:
                return False
            d = self.Gdec[p]
            st = self.states[self.model_top]
            if d[0] == 'regular':
                st2, res, raised = self.app.model.step(st, d[1], d[2])
                self.states[p] = st2
                self.results[p] = res
                if raised:
                    self.raised[p] = True
            else:
                self.states[p] = st
            self.model_top = p
        return True

    def _applies(self, host, node, v, applied, loads):
        w = self.w
        mine = [a for a in w.step_applies if a[0] == host.idx]
        prev = v.applied
        last = v.exec_pos
        for (_, inc, pos, tag, extra) in mine:
            if pos <= last:
                self.flag('apply_order', 'host %d executed position %d after position %d' % (host.idx, pos, last))
            last = pos
            a = self.A.get(pos)
            if a is None:
                self.A[pos] = tag
            elif a != tag:
                self.flag('apply_conflict', 'position %d applied as %r on host %d but as %r earlier' % (pos, tag, host.idx, a))
            g = self.Gdec.get(pos)
            if g is None:
                self.flag('applied_not_committed', 'host %d executed position %d which no node has reported committed' % (host.idx, pos))
            elif g[0] != 'regular' or not isinstance(g[2], (tuple, list)) or not g[2] or g[2][0] != tag:
                self.flag('apply_tag_mismatch', 'host %d executed %r at position %d, the common sequence holds %r' % (host.idx, tag, pos, repr(g[:3])[:120]))
        v.exec_pos = last
        if applied == prev and not mine:
            return
        if not loads and applied > prev:
            # every user command in (prev, applied] must have been executed in this very step
            want = [p for p in range(prev + 1, applied + 1) if self.Gdec.get(p, ('?',))[0] == 'regular'
                    and not self.raised_ok(p)]
            got = [a[2] for a in mine if not self.raised_ok(a[2])]
            if want != got and all(p in self.Gdec for p in range(prev + 1, applied + 1)):
                self.flag('apply_skip', 'host %d moved applied index %d -> %d but executed positions %r, expected %r' % (host.idx, prev, applied, got[:40], want[:40]))
        # state == replay(G[..applied])
        if self._extend_model(applied):
            self.n_state_checks += 1
            st = self.app.model.observe(node)
            if st != self.states[applied]:
                self.flag('state_mismatch',
                          'host %d state after position %d differs from the reference execution' % (host.idx, applied),
                          dict(have=repr(st)[:160], want=repr(self.states[applied])[:160], loads=loads))
        else:
            if applied > 1:
                self.flag('applied_not_committed', 'host %d has applied index %d but position %d was never reported committed' % (host.idx, applied, self.model_top + 1))

    def raised_ok(self, p):
        return False

    # -- C02 -------------------------------------------------------------------------
    def _callbacks(self, cbs):
        FR = M.cf.FAIL_REASON
        never = (FR.QUEUE_FULL, FR.MISSING_LEADER, FR.NOT_LEADER, FR.REQUEST_DENIED, FR.DISCARDED)
        for tag, res, err, idx, _pos in cbs:
            lst = self.cbs.setdefault(tag, [])
            lst.append((res, err, self.w.evno))
            if len(lst) > 1:
                self.flag('cb_twice', 'callback of command %r fired %d times: %r' % (tag, len(lst), [(x[1]) for x in lst]))
            if err == FR.SUCCESS:
                self.success_tags[tag] = res
                p = self.Gtag.get(tag)
                if p is None:
                    self.flag('success_not_committed', 'command %r reported SUCCESS but is not in the common sequence' % (tag,))
                else:
                    if self._extend_model(p) and p in self.results and not self.raised.get(p):
                        if _plain(res) != _plain(self.results[p]):
                            self.flag('success_wrong_result', 'command %r at position %d: callback result %r, reference %r' % (tag, p, res, self.results[p]))
            elif err in never:
                self.failed_tags[tag] = err
                if tag in self.Gtag:
                    self.flag('failed_but_committed', 'command %r was reported failed (%s) but is committed at %d' % (tag, err, self.Gtag[tag]))

    # -- end of run -------------------------------------------------------------------
    def final(self):
        """Checks over the whole history."""
        for tag, err in self.failed_tags.items():
            if tag in self.Gtag:
                self.flag('failed_but_committed', 'command %r was reported failed (%s) but is committed at %d' % (tag, err, self.Gtag[tag]))
            for p, t in self.A.items():
                if t == tag:
                    self.flag('failed_but_committed', 'command %r was reported failed (%s) but was applied at %d' % (tag, err, p))
                    break

    def summary(self):
        return dict(commits=self.commits, commit_events=self.commit_events, commits_after_fault=self.commits_after_fault, leader_changes=self.leader_changes,
                    terms=len(self.leaders), terms_with_candidate=len(self.terms_with_candidate),
                    submissions=len(self.subs),
                    callbacks=sum(len(x) for x in self.cbs.values()),
                    success=len(self.success_tags), failed=len(self.failed_tags),
                    state_checks=self.n_state_checks, majority_checks=self.n_majority_checks,
                    applies=len(self.A))


def _plain(x):
    if isinstance(x, list):
        return tuple(_plain(i) for i in x)
    if isinstance(x, tuple):
        return tuple(_plain(i) for i in x)
    return x
