"""vsim - deterministic simulation harness for bakwc/PySyncObj (see /verif/DESIGN.md)."""
HARNESS_VERSION = 1
