"""One simulated cluster run: generate (or replay) an event list against a World."""
import random
import time as _time

from .boot import CTX, HarnessError
from .world import World
from .oracle import RaftOracle
from .sched import Scheduler, draw_common, RunAbort
from .workload import KVApp


class Spec(object):
    """What a property needs from a cluster run.  Subclassed per property."""
    prop = None
    invariants = ()              # invariant names this property reports
    quiet_rounds = 0

    def draw(self, rng, tier='quick'):
        return draw_common(rng)

    def make_app(self, cfg):
        return KVApp(cfg)

    def make_oracle(self, world, app):
        return RaftOracle(world, app)

    def make_tap(self, world, oracle):
        return None

    def make_sched(self, world, rng, cfg):
        return Scheduler(world, rng, cfg)

    def nontrivial(self, res):
        return True

    def after_quiet(self, world, oracle, res):
        pass


class RunResult(dict):
    pass


def abstract_state(world):
    t = []
    for h in world.hosts:
        n = h.node
        if n is None:
            t.append(None)
            continue
        t.append((n._SyncObj__raftState, n.raftCommitIndex - n.raftLastApplied > 0,
                  min(n._getRaftLogSize(), 6), min(len(n._SyncObj__connectedNodes), 4)))
    terms = sorted(set(h.node.raftCurrentTerm for h in world.hosts if h.node is not None))
    rank = tuple(terms.index(h.node.raftCurrentTerm) if h.node is not None else -1 for h in world.hosts)
    return hash((tuple(t), rank, world.groups is not None, min(len(world.net.pending), 3)))


def run_cluster(seed, spec, cfg=None, events=None, tier='quick', max_wall=120.0, stop_at_violation=True):
    """Run one execution.  events=None: generate with the seeded scheduler.
    events=list: replay exactly (no PRNG for scheduling)."""
    t0 = _time.time()
    rng = random.Random(seed)
    if cfg is None:
        cfg = spec.draw(rng, tier)
    app = spec.make_app(cfg)
    w = World(seed, cfg, app)
    orc = spec.make_oracle(w, app)
    w.oracle = orc
    w.tap = spec.make_tap(w, orc)
    own = set(spec.invariants)
    states = set()
    aborted = None

    def own_violation():
        for v in orc.violations:
            if v.inv in own:
                return v
        return None
    try:
        if events is None:
            sch = spec.make_sched(w, rng, cfg)
            for h in w.hosts:
                if h.member or h.readonly:
                    w.apply([0.0, 'start', h.idx])
            steps = cfg['sched']['steps']
            n = 0
            while n < steps:
                ev = sch.next_event()
                if ev is None:
                    break
                w.apply(ev)
                n += 1
                if (n & 7) == 0:
                    states.add(abstract_state(w))
                    if (n & 255) == 0 and _time.time() - t0 > max_wall:
                        aborted = 'wall'
                        break
                if stop_at_violation and orc.violations and own_violation() is not None:
                    break
            if hasattr(spec, 'quiet') and aborted is None and not (stop_at_violation and own_violation() is not None):
                spec.quiet(w, orc, sch, w.apply)
            qr = cfg['sched'].get('quiet_rounds', 0)
            if qr and aborted is None and not (stop_at_violation and own_violation() is not None):
                w.probe('quiet_phase_reached')
                spec.before_quiet(w, orc, sch) if hasattr(spec, 'before_quiet') else None
                for ev in sch.quiet_events(qr, cfg['sched'].get('quiet_period', 0.02)):
                    w.apply(ev)
                    if spec.quiet_hook(w, orc, sch, ev) if hasattr(spec, 'quiet_hook') else False:
                        break
                    if stop_at_violation and orc.violations and own_violation() is not None:
                        break
                spec.after_quiet(w, orc, sch)
        else:
            for ev in events:
                w.apply(list(ev))
                if stop_at_violation and orc.violations and own_violation() is not None:
                    break
            if hasattr(spec, 'after_replay'):
                spec.after_replay(w, orc)
        orc.final()
    except RunAbort as e:
        aborted = str(e)
    except HarnessError:
        raise
    res = RunResult()
    res['seed'] = seed
    res['cfg'] = cfg
    res['events'] = w.trace
    res['n_events'] = w.evno
    res['sim_time'] = w.T
    res['digest'] = w.hexdigest()
    res['violations'] = [v.as_dict() for v in orc.violations if v.inv in own]
    res['cross'] = [v.as_dict() for v in orc.violations if v.inv not in own]
    res['probes'] = dict(w.probes)
    res['faults'] = dict(w.faults)
    res['net'] = dict(w.net.stats)
    res['summary'] = orc.summary()
    res['tick_exc'] = w.tick_exc[:5]
    res['n_tick_exc'] = len(w.tick_exc)
    res['states'] = states
    res['aborted'] = aborted
    res['wall'] = _time.time() - t0
    res['nontrivial'] = bool(spec.nontrivial(res))
    w.destroy()
    return res
