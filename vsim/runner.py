"""Batch runner: seeds -> worker processes -> verdict, replay files, evidence.

Exit codes: 0 held on everything explored (known findings are listed as
KNOWN-FINDING lines), 1 violation (VIOLATION property=<id> replay=<path>),
2 harness error (HARNESS-ERROR ...), never 0 after a worker death.
"""
import os
import sys
import json
import time
import hashlib
import traceback
import multiprocessing
import faulthandler
from concurrent.futures import ProcessPoolExecutor, as_completed

from . import HARNESS_VERSION
from .boot import HarnessError, REPO

VERIF = os.path.dirname(os.path.dirname(os.path.abspath(__file__)))
EVID = os.environ.get('VERIF_EVID_DIR') or os.path.join(VERIF, 'evidence')
FOUND = os.environ.get('VERIF_FOUND_DIR') or os.path.join(VERIF, 'found')
KNOWN = os.environ.get('VERIF_KNOWN_FILE') or os.path.join(VERIF, 'known_findings.json')

_MOD = {}

# run counts of the quick tier, sized from measured speed so that a check takes 30-60 s on 16 cores
QUICK_RUNS = dict(C01=2880, C02=1920, C03=2560, C04=1600, C05=1280, C06=1280, C07=1920, C08=4000, C09=1440, C10=1280,
                  C11=352, C12=1280, C13=12000, C14=1280, C15=4800, C16=480, C17=2880, C18=960, C19=960, C20=1920)


def prop_module(pid):
    if pid not in _MOD:
        import importlib
        _MOD[pid] = importlib.import_module('vsim.props.%s' % pid.lower())
    return _MOD[pid]


def derive_seed(base, k):
    return (base * 1000003 + k * 7919 + 1) % (1 << 31)


class RunAborted(BaseException):
    pass


def _on_alarm(signum, frame):
    raise RunAborted()


def _work(args):
    pid, seed, tier, wall, k = args
    import signal
    faulthandler.dump_traceback_later(wall * 3 + 30, exit=True)
    signal.signal(signal.SIGALRM, _on_alarm)
    signal.setitimer(signal.ITIMER_REAL, wall)
    t0 = time.time()
    try:
        mod = prop_module(pid)
        if getattr(mod, 'WANTS_K', False):
            res = mod.run(seed, tier, k=k)
        else:
            res = mod.run(seed, tier)
        signal.setitimer(signal.ITIMER_REAL, 0)
        out = compact(res)
        out['ok'] = True
        return out
    except RunAborted:
        # neither a pass nor a violation: counted as aborted_resource
        from .boot import CTX
        CTX.world = None
        return dict(ok=True, seed=seed, aborted='wall', digest='aborted-%d' % seed, nontrivial=False,
                    wall=time.time() - t0, violations=[], states=[])
    except HarnessError as e:
        return dict(ok=False, seed=seed, harness_error=repr(e), tb=traceback.format_exc())
    except Exception as e:
        return dict(ok=False, seed=seed, harness_error=repr(e), tb=traceback.format_exc())
    finally:
        signal.setitimer(signal.ITIMER_REAL, 0)
        faulthandler.cancel_dump_traceback_later()


def compact(res, sample_events=40):
    out = dict((k, res.get(k)) for k in ('seed', 'n_events', 'sim_time', 'digest', 'violations', 'cross', 'probes',
                                          'faults', 'net', 'summary', 'n_tick_exc', 'tick_exc', 'aborted', 'wall',
                                          'nontrivial', 'known_seen', 'extra', 'exhaustive'))
    st = res.get('states')
    out['states'] = list(st) if st else []
    if res.get('violations'):
        out['events'] = res.get('events')
        out['cfg'] = res.get('cfg')
    else:
        ev = res.get('events') or []
        out['sample'] = dict(cfg=_small_cfg(res.get('cfg')), first_events=ev[:sample_events], n_events=len(ev))
    return out


def _small_cfg(cfg):
    if not isinstance(cfg, dict):
        return cfg
    c = dict(cfg)
    c.pop('sched', None)
    return c


# -- known findings ------------------------------------------------------------------
def load_known():
    if not os.path.exists(KNOWN):
        return []
    with open(KNOWN) as f:
        return json.load(f).get('findings', [])


def match_known(pid, viol, events, cfg, known):
    """Return the known (status 'known') finding this violation is an instance of."""
    mod = prop_module(pid)
    matcher = getattr(mod, 'match_known', None)
    for k in known:
        if k.get('property') != pid or k.get('status') != 'known':
            continue
        if matcher is not None:
            if matcher(k, viol, events, cfg):
                return k
        elif k.get('invariant') == viol.get('inv'):
            return k
    return None


# -- replay files ----------------------------------------------------------------------
def write_replay(pid, seed, cfg, events, viol, digest, name=None, directory=None):
    directory = directory or FOUND
    os.makedirs(directory, exist_ok=True)
    doc = dict(harness_version=HARNESS_VERSION, property=pid, pythonhashseed=os.environ.get('PYTHONHASHSEED'),
               seed=seed, cfg=cfg, events=events, violation=viol, digest=digest)
    name = name or ('%s_%s_seed%d.json' % (pid, viol.get('inv', 'v'), seed))
    path = os.path.join(directory, name)
    with open(path, 'w') as f:
        json.dump(doc, f, separators=(',', ':'))
    return path


def replay_file(path, quiet=False):
    with open(path) as f:
        doc = json.load(f)
    pid = doc['property']
    mod = prop_module(pid)
    res = mod.run(doc['seed'], 'replay', cfg=doc['cfg'], events=doc['events'])
    want = doc.get('violation') or {}
    got = None
    for v in res.get('violations') or []:
        if v['inv'] == want.get('inv'):
            got = v
            break
    if got is None and res.get('violations'):
        got = res['violations'][0]
    same_digest = (res.get('digest') == doc.get('digest'))
    return pid, want, got, same_digest, res


# -- minimisation --------------------------------------------------------------------------
def minimise(pid, seed, cfg, events, inv, budget_s=45.0):
    """Delta debugging on the explicit event list: keep a candidate only if it fails
    with the same invariant name."""
    mod = prop_module(pid)
    t0 = time.time()
    fixed = getattr(mod, 'fixed_prefix', lambda evs: 0)(events)

    def fails(evs):
        try:
            r = mod.run(seed, 'replay', cfg=cfg, events=evs)
        except Exception:
            return None
        for v in r.get('violations') or []:
            if v['inv'] == inv:
                return r
        return None
    base = fails(events)
    if base is None:
        return events, None, 0
    # cut after the violating event
    n_ev = base['violations'][0].get('evno')
    for v in base['violations']:
        if v['inv'] == inv:
            n_ev = v.get('evno')
    cur = list(events[:n_ev]) if n_ev else list(events)
    r = fails(cur)
    if r is None:
        cur = list(events)
        r = base
    best = r
    tests = 0
    n = 2
    while len(cur) - fixed >= 2 and time.time() - t0 < budget_s:
        body = cur[fixed:]
        chunk = max(1, len(body) // n)
        reduced = False
        i = 0
        while i < len(body) and time.time() - t0 < budget_s:
            cand = cur[:fixed] + body[:i] + body[i + chunk:]
            tests += 1
            r = fails(cand)
            if r is not None:
                cur = cand
                body = cur[fixed:]
                best = r
                reduced = True
                n = max(n - 1, 2)
            else:
                i += chunk
        if not reduced:
            if chunk == 1:
                break
            n = min(len(body), n * 2)
    return cur, best, tests


# -- the batch ------------------------------------------------------------------------------
def run_check(pid, tier, base_seed=None, n_runs=None, workers=None, budget_s=None):
    t0 = time.time()
    mod = prop_module(pid)
    if base_seed is None:
        base_seed = int(os.environ.get('VERIF_SEED', '20260922'))
    budget = dict(mod.BUDGET[tier])
    if tier == 'quick' and pid in QUICK_RUNS:
        budget['runs'] = QUICK_RUNS[pid]
        # the run count is what defines the quick tier; the wall cap only guards a much slower machine
        budget['wall'] = max(budget['wall'], 150)
    if n_runs is None:
        n_runs = int(os.environ.get('VERIF_RUNS', budget['runs']))
    if budget_s is None:
        budget_s = float(os.environ.get('VERIF_BUDGET_S', budget['wall']))
    if workers is None:
        workers = int(os.environ.get('VERIF_WORKERS', min(16, os.cpu_count() or 4)))
    per_run_wall = budget.get('per_run_wall', 120)
    known = load_known()
    known_lines = []
    violations = []
    harness_errors = []

    # 1. stored known-finding replays (status known) must still reproduce; fixed ones must not
    for k in known:
        if k.get('property') != pid or not k.get('replay'):
            continue
        path = os.path.join(VERIF, k['replay'])
        if not os.path.exists(path):
            harness_errors.append('known finding replay missing: %s' % path)
            continue
        try:
            _, want, got, same, _res = replay_file(path)
        except Exception as e:
            harness_errors.append('replay of %s failed: %r' % (path, e))
            continue
        if k.get('status') == 'known':
            if got is not None and got['inv'] == want.get('inv'):
                known_lines.append('KNOWN-FINDING: property=%s %s' % (pid, k.get('what', k.get('id'))))
        else:
            if got is not None and got['inv'] == want.get('inv'):
                violations.append(dict(seed=_res.get('seed'), viol=got, replay=path, regression_of=k.get('id')))

    # 2. seeded search
    seeds = [derive_seed(base_seed, k) for k in range(n_runs)]
    results = []
    suppressed = {}
    dead_worker = False
    deadline = t0 + budget_s
    ctx = multiprocessing.get_context('fork')
    pending_min = []
    stop_first = bool(os.environ.get('VERIF_STOP_ON_FIRST'))
    if getattr(mod, 'SERIAL', False) or workers <= 1:
        for k, s in enumerate(seeds):
            if time.time() > deadline:
                break
            results.append(_work((pid, s, tier, per_run_wall, k)))
    else:
        ex = ProcessPoolExecutor(max_workers=workers, mp_context=ctx)
        try:
            futs = {}
            it = iter(enumerate(seeds))
            inflight = 0

            def submit_more():
                nonlocal inflight
                while inflight < workers * 2 and time.time() < deadline:
                    try:
                        k, s = next(it)
                    except StopIteration:
                        return
                    futs[ex.submit(_work, (pid, s, tier, per_run_wall, k))] = s
                    inflight += 1
            submit_more()
            while futs:
                done = None
                for f in as_completed(list(futs)):
                    done = f
                    break
                s = futs.pop(done)
                inflight -= 1
                try:
                    results.append(done.result())
                except Exception as e:
                    dead_worker = True
                    harness_errors.append('worker died on seed %d: %r' % (s, e))
                    break
                if stop_first and results[-1].get('ok') and any(
                        match_known(pid, v, results[-1].get('events'), results[-1].get('cfg'), known) is None
                        for v in results[-1].get('violations') or []):
                    # tooling (runs against seeded changes): the first violation that is not a known finding ends the batch
                    break
                submit_more()
        finally:
            ex.shutdown(wait=False, cancel_futures=True)

    # 3. triage
    ok_results = []
    for r in results:
        if not r.get('ok'):
            harness_errors.append('seed %s: %s' % (r.get('seed'), r.get('harness_error')))
            if r.get('tb'):
                sys.stderr.write(r['tb'])
            continue
        ok_results.append(r)
    reported = set()
    t_min0 = time.time()
    if os.environ.get('VERIF_ALL_REPLAYS'):
        # tooling: keep an un-minimised replay of every violating run
        for r in ok_results:
            for v in r.get('violations') or []:
                write_replay(pid, r['seed'], r.get('cfg'), r.get('events'), v, r.get('digest'),
                             name='raw_%s_%s_seed%d.json' % (pid, v['inv'], r['seed']))
    for r in ok_results:
        if not r.get('violations'):
            continue
        for v in r['violations']:
            k = match_known(pid, v, r.get('events'), r.get('cfg'), known)
            if k is not None:
                suppressed[k['id']] = suppressed.get(k['id'], 0) + 1
                continue
            if v['inv'] in reported:
                continue
            reported.add(v['inv'])
            events, cfg = r.get('events'), r.get('cfg')
            path = None
            if events is not None and getattr(mod, 'MINIMISE', True) and v['inv'] not in getattr(mod, 'NO_MINIMISE_INVS', ()) and time.time() - t_min0 < 120:
                try:
                    small, best, tests = minimise(pid, r['seed'], cfg, events, v['inv'],
                                                  budget_s=float(os.environ.get('VERIF_MIN_S', '40')))
                    if best is not None:
                        vv = [x for x in best['violations'] if x['inv'] == v['inv']][0]
                        # after minimisation the finding may turn out to be a known one
                        k = match_known(pid, vv, small, cfg, known)
                        if k is not None:
                            suppressed[k['id']] = suppressed.get(k['id'], 0) + 1
                            reported.discard(v['inv'])
                            continue
                        path = write_replay(pid, r['seed'], cfg, small, vv, best.get('digest'))
                        v = vv
                except Exception as e:
                    sys.stderr.write('minimisation failed: %r\n' % (e,))
            if path is None:
                path = write_replay(pid, r['seed'], cfg, events, v, r.get('digest'))
                if events is not None:
                    # a replay file that does not reproduce its violation is a defect of the harness: say so
                    try:
                        rr = mod.run(r['seed'], 'replay', cfg=cfg, events=events)
                        if not any(x['inv'] == v['inv'] for x in rr.get('violations') or []):
                            sys.stderr.write('HARNESS-WARNING: replay %s does not reproduce %s\n' % (path, v['inv']))
                    except Exception as e:
                        sys.stderr.write('HARNESS-WARNING: replay %s raised %r\n' % (path, e))
            violations.append(dict(seed=r['seed'], viol=v, replay=path))
    for kid, n in sorted(suppressed.items()):
        k = [x for x in known if x['id'] == kid][0]
        line = 'KNOWN-FINDING: property=%s %s' % (pid, k.get('what', kid))
        if line not in known_lines:
            known_lines.append(line)

    wall = time.time() - t0
    ev = build_evidence(pid, tier, base_seed, mod, ok_results, violations, suppressed, known_lines, wall, workers,
                        n_requested=n_runs)
    os.makedirs(EVID, exist_ok=True)
    with open(os.path.join(EVID, '%s.json' % pid), 'w') as f:
        json.dump(ev, f, indent=1, sort_keys=True, default=str)
    for line in known_lines:
        print(line)
    aborted = len([r for r in ok_results if r.get('aborted')])
    print('%s %s: %d runs, %d non-trivial distinct, %d violations, %d aborted, %.1fs wall, repo=%s'
          % (pid, tier, len(ok_results), ev['coverage']['distinct_nontrivial'], len(violations), aborted, wall, REPO))
    if violations:
        for v in violations:
            print('  %s: %s' % (v['viol']['inv'], v['viol']['msg']))
            print('VIOLATION property=%s replay=%s' % (pid, v['replay']))
        return 1
    if harness_errors or dead_worker:
        for h in harness_errors[:10]:
            print('HARNESS-ERROR %s' % h)
        return 2
    if ok_results and aborted * 10 > len(ok_results):
        # an aborted run (back-pressure cap or per-run wall clock) is neither a pass nor a violation; a few
        # are expected and reported in the evidence, many mean that the batch explored too little
        print('HARNESS-ERROR more than 10%% of runs aborted (%d of %d)' % (aborted, len(ok_results)))
        return 2
    if not ok_results:
        print('HARNESS-ERROR no run completed')
        return 2
    return 0


def _merge(dst, src):
    for k, v in (src or {}).items():
        if isinstance(v, (int, float)):
            dst[k] = dst.get(k, 0) + v


def build_evidence(pid, tier, base_seed, mod, results, violations, suppressed, known_lines, wall, workers, n_requested):
    faults, probes, netst, summ = {}, {}, {}, {}
    digests = set()
    nontriv = set()
    states = set()
    sim_time = 0.0
    events = 0
    samples = []
    exhaustive = None
    for r in results:
        _merge(faults, r.get('faults'))
        _merge(probes, r.get('probes'))
        _merge(netst, r.get('net'))
        _merge(summ, r.get('summary'))
        d = r.get('digest')
        digests.add(d)
        if r.get('nontrivial') and not r.get('aborted'):
            nontriv.add(d)
        states.update(r.get('states') or [])
        sim_time += r.get('sim_time') or 0.0
        events += r.get('n_events') or 0
        if len(samples) < 3 and r.get('sample') and r.get('nontrivial'):
            samples.append(dict(seed=r['seed'], digest=d, **r['sample']))
        if r.get('exhaustive') is not None:
            exhaustive = r['exhaustive'] if exhaustive is None else (exhaustive and r['exhaustive'])
    if not samples:
        for r in results[:2]:
            if r.get('sample'):
                samples.append(dict(seed=r['seed'], digest=r.get('digest'), **r['sample']))
    if not samples:
        samples = [dict(note='no run completed')]
    cov = dict(
        evaluations=len(results),
        distinct_nontrivial=len(nontriv),
        distinct_digests=len(digests),
        rule=mod.RULE,
        samples=samples,
        runs_requested=n_requested,
        runs_per_hour=int(len(results) / wall * 3600) if wall > 0 else 0,
        seeds=dict(base=base_seed, derivation='(base*1000003 + k*7919 + 1) mod 2^31, k=0..runs-1', count=len(results)),
        sim_time_s=round(sim_time, 3),
        events=events,
        fault_counts=faults,
        net_counts=netst,
        probes=probes,
        oracle_counts=summ,
        distinct_states=len(states),
        distinct_states_measure=getattr(mod, 'STATE_MEASURE', 'hash of (per node: role, commit>applied, log length bucket, connected-peer count; term order; partitioned?; pending connects) sampled every 8 events'),
        components_real=getattr(mod, 'COMPONENTS_REAL', []),
        components_stub=getattr(mod, 'COMPONENTS_STUB', []),
        aborted_resource=len([r for r in results if r.get('aborted')]),
        tick_exceptions=sum((r.get('n_tick_exc') or 0) for r in results),
        cross_property_alarms=_count_cross(results),
        known_findings_seen=known_lines,
        suppressed_by_signature=suppressed,
        workers=workers,
        repo=REPO,
    )
    if exhaustive is not None:
        cov['exhaustive'] = bool(exhaustive)
    ev = dict(property_id=pid, tier=tier, seed=base_seed, level=mod.LEVEL, coverage=cov,
              assumptions=getattr(mod, 'ASSUMPTIONS', []), wall_s=round(wall, 2), violations=len(violations))
    if violations:
        ev['coverage']['violation_replays'] = [v['replay'] for v in violations]
    return ev


def _count_cross(results):
    c = {}
    for r in results:
        for v in r.get('cross') or []:
            c[v['inv']] = c.get(v['inv'], 0) + 1
    return c
