"""C12 A replicated method that raises does not stall or split the cluster."""
from .common import *
from . import c01, c05
from ..oracle import INV_PROP, RaftOracle
from ..boot import priv

PROP = 'C12'
LEVEL = 'exploration'
OWN = ('raise_wedges_node', 'raise_callback_count', 'raise_replicas_differ', 'raise_reexecuted', 'raise_wrong_result')
INVARIANTS = OWN
for _i in OWN:
    INV_PROP[_i] = PROP
RULE = ('one case = one seeded execution of a 2-4 voter cluster (memory or file journal, some runs with kill/restart that '
        'replays the journal) in which a drawn subset of the commands raises deterministically on every replica (boom(tag) '
        'raises one of six exception kinds after recording its execution; echo(tag, <argument that cannot be unpickled>) raises '
        'while the command is decoded); mild network faults; after a quiet period every replica must have '
        'moved past every raising command, every callback must have fired exactly once, later commands must be applied and '
        'replicas identical; distinct = distinct event/state log digest; non-trivial = at least one raising command was '
        'committed and at least one later command was submitted')
COMPONENTS_REAL = REAL_CLUSTER
COMPONENTS_STUB = STUB_CLUSTER
ASSUMPTIONS = ASSUME_CLUSTER + ['the raising method raises on every replica alike (deterministic), before changing any state']
BUDGET = dict(quick=dict(runs=480, wall=80, per_run_wall=60), thorough=dict(runs=40000, wall=900, per_run_wall=120))


class C12Oracle(RaftOracle):
    def __init__(self, world, app):
        RaftOracle.__init__(self, world, app)
        self.boom_tags = set()
        self.execs = {}
        self.check_log_matching = False

    def raised_ok(self, p):
        # a command that raises while it is decoded never reaches the method body: no execution is recorded for it
        d = self.Gdec.get(p)
        return bool(d and d[0] == 'regular' and d[3] and d[3].get('__unloadable__'))

    def after_event(self, ev, out, touched):
        w = self.w
        if ev[1] == 'sub' and ev[3] in ('boom', 'boomarg'):
            self.boom_tags.add(ev[4])
        for (idx, inc, pos, tag, extra) in w.step_applies:
            k = (idx, inc, pos)
            self.execs[k] = self.execs.get(k, 0) + 1
            if self.execs[k] == 2 and tag in self.boom_tags:
                self.flag('raise_reexecuted', 'host %d executed the raising command %d (position %d) again: the node does not move past it' % (idx, tag, pos))
        # what the submitter is told about a raising command that was committed: SUCCESS with the exception the method
        # raised (the library hands the exception to the caller as the result) - never another command's result
        for tag, res, err, idx, _pos in w.step_callbacks:
            if tag in self.boom_tags and err == 0 and not isinstance(res, BaseException):
                self.flag('raise_wrong_result', 'the callback of the raising command %d got SUCCESS with result %r, which is not the exception the method raised' % (tag, res))
        RaftOracle.after_event(self, ev, out, touched)


class C12Sched(Scheduler):
    def make_submit(self):
        ev = Scheduler.make_submit(self)
        if ev is not None and self.rng.random() < self.s.get('p_boom', 0.2):
            if self.rng.random() < self.s.get('p_boomarg', 0.0):
                # raises while the arguments of the command are rebuilt, before the method body runs
                return ['sub', ev[1], 'boomarg', ev[3]]
            return ['sub', ev[1], 'boom', ev[3]]
        return ev


class C12Spec(c01.C01Spec):
    churn_share = 0
    prop = PROP
    invariants = INVARIANTS

    def draw(self, rng, tier='quick'):
        cfg = c01.C01Spec.draw(self, rng, tier)
        cfg['n_voters'] = rng.choice([2, 3, 3, 4])
        conf = cfg['conf']
        s = cfg['sched']
        s['p_boom'] = rng.choice([0.05, 0.2, 0.5])
        s['p_boomarg'] = rng.choice([0.0, 0.2, 0.5])
        s['steps'] = rng.choice([800, 2000])
        s['max_subs'] = 60
        s['w_part'] = 0.0
        s['w_hold'] = rng.choice([0.0, 0.02])
        s['w_rst'] = rng.choice([0.0, 0.02])
        if rng.random() < 0.25:
            # a calm run: no fault at all (callbacks of follower-submitted raising commands are owed too)
            s['w_hold'] = s['w_rst'] = s['w_stall'] = 0.0
            s['w_compact'] = 0.0
            cfg['calm'] = True
        if rng.random() < 0.4 and not cfg.get('calm'):
            conf['journal'] = True
            conf['dump'] = True
            conf['useFork'] = False
            s['w_kill'] = rng.choice([0.0, 0.01])
            s['w_start'] = 0.3
            s['max_down'] = 1
            cfg['placement'] = 'journal+dump'
        return cfg

    def make_oracle(self, world, app):
        return C12Oracle(world, app)

    def make_sched(self, world, rng, cfg):
        return C12Sched(world, rng, cfg)

    def quiet(self, w, orc, sch, apply):
        for h in w.hosts:
            if h.node is None and h.member:
                apply([0.0, 'start', h.idx])
        period = 0.05
        B = c05.SPEC.bound(w.cfg)
        nfaults_before_quiet = w.nfaults
        t0 = w.T
        top = max(orc.G) if orc.G else 1
        booms_committed = [t for t in orc.boom_tags if t in orc.Gtag]
        if booms_committed:
            w.probe('raising_command_committed', len(booms_committed))

        def round_():
            quiet_round(w, apply, period)
        apply([0.0, 'heal'])
        sch.held = []
        # one more ordinary command, submitted after all raising ones
        lead_tag = None
        rounds = 0
        done = False
        while w.T - t0 < B:
            round_()
            rounds += 1
            if any(v.inv in OWN for v in orc.violations):
                return
            if lead_tag is None:
                li = sch.leader_idx()
                if li is not None:
                    lead_tag = sch.next_tag
                    sch.next_tag += 1
                    apply([0.0, 'sub', li, 'append', lead_tag])
                continue
            top = max(orc.G) if orc.G else 1
            if orc.cbs.get(lead_tag) and all(h.node is None or h.node.raftLastApplied >= top for h in w.hosts):
                if orc.cbs[lead_tag][0][1] == 0:
                    done = True
                    break
                lead_tag = None      # reported failed (e.g. leader changed): try again
        if not done:
            behind = [(h.idx, h.node.raftLastApplied, h.node.raftCommitIndex) for h in w.hosts if h.node is not None]
            stuck_at = [orc.Gdec.get(a + 1) for (_, a, _) in behind]
            if any(d is not None and d[0] == 'regular' and d[1] == 'boom' for d in stuck_at):
                orc.flag('raise_wedges_node', 'after %.1f s of quiet time a replica is stuck right before a raising command: (host, applied, commit) = %r, tick exceptions: %d' % (
                    w.T - t0, behind, len(w.tick_exc)), dict(exc=w.tick_exc[-1:] and list(w.tick_exc[-1])))
            else:
                w.probe('final_convergence_failed_other_reason')
            return
        # a run without any fault and with one leadership only: every committed raising command was submitted (directly or
        # forwarded) under the leader that committed it, nothing was lost - its callback is owed exactly once, wherever
        # it was submitted
        calm = (nfaults_before_quiet == 0 and orc.leader_changes <= 1)
        if calm:
            w.probe('calm_run_callbacks_checked')
        for tag in orc.boom_tags:
            n = len(orc.cbs.get(tag, []))
            if tag not in orc.Gtag:
                continue
            p = orc.Gtag[tag]
            if calm and n != 1:
                sub = orc.subs.get(tag)
                orc.flag('raise_callback_count', 'no fault and one leadership in the whole run: the callback of the raising command %d (submitted on host %s, committed at %d) fired %d times' % (
                    tag, sub[0] if sub else '?', p, n))
                return
            if n > 1:
                orc.flag('raise_callback_count', 'the callback of the raising command %d (committed at %d) fired %d times' % (tag, p, n))
                return
            # "exactly once" is owed where an ordinary command's callback is certain too: the command was
            # appended by the very node it was submitted on (that node led the entry's term), and that
            # process is still alive and has applied the position
            sub = orc.subs.get(tag)
            if sub is None:
                continue
            h = w.hosts[sub[0]]
            # (a node that caught up over the position by installing a snapshot never executes it, and its callbacks
            # for such positions are not invoked - for ordinary commands alike)
            if orc.leaders.get(orc.G[p][2]) == sub[0] and h.node is not None and h.inc == sub[3] and h.node.raftLastApplied >= p and \
                    orc.execs.get((sub[0], sub[3], p), 0) >= 1 and n != 1:
                orc.flag('raise_callback_count', 'the callback of the raising command %d (submitted on and appended by host %d, committed at %d) fired %d times' % (tag, sub[0], p, n))
                return
        sts = set((h.node.raftLastApplied, orc.app.model.observe(h.node)) for h in w.hosts if h.node is not None)
        if len(sts) != 1:
            orc.flag('raise_replicas_differ', 'replicas differ after the quiet period: %r' % (sorted(sts)[:3],))

    def nontrivial(self, res):
        return res['probes'].get('raising_command_committed', 0) > 0 and res['probes'].get('quiet_phase_reached', 0) >= 0


SPEC = C12Spec()
run = make_run(SPEC)
