"""C09 Snapshots capture exactly the state at their position, in every serializer mode."""
import io
import sys
import gzip
import pickle as _pickle

from .common import *
from . import c01, c05
from ..oracle import INV_PROP, RaftOracle, log_of, norm
from ..workload import KVApp, KVModel, get_classes, mix, NKEYS
from ..boot import CTX, M, priv, HarnessError, install
from .. import fs as simfs

PROP = 'C09'
LEVEL = 'exploration'
OWN = ('snapshot_state_mismatch', 'snapshot_position_mismatch', 'dump_not_decodable', 'dump_foreign', 'failed_load_acknowledged', 'received_snapshot_corrupt', 'compacted_without_snapshot',
       'lagging_node_not_caught_up', 'log_empty', 'loaded_state_mismatch', 'deleted_attribute_survives_install')
INVARIANTS = OWN + ('state_mismatch', 'applied_back', 'log_gap')
for _i in OWN:
    INV_PROP[_i] = PROP
RULE = ('one case = one seeded execution of a 2-4 voter cluster with compaction always on (thresholds 2-10 entries), an object plus a '
        'consumer, and a drawn serializer mode: in memory; dump file written inline; dump file written by an (emulated) fork child '
        'whose storage ops interleave with the parent\'s applies; user-supplied serializer/deserializer/serializeChecker functions '
        '(synchronous and asynchronous); chunk sizes 1 byte .. larger than the snapshot; transfers interrupted by resets and quick '
        'reconnects, by leader changes and by a newer snapshot on the sender; some runs with journal + kills during the dump write '
        'and rename; every snapshot that appears (dump file after each storage op, in-memory blob after each tick) is decoded by '
        'the oracle and compared with the reference execution at its recorded position; distinct = distinct event/state log digest; '
        'non-trivial = at least one snapshot was produced and verified and at least one was loaded (install or restart)')
COMPONENTS_REAL = REAL_CLUSTER
COMPONENTS_STUB = STUB_CLUSTER
ASSUMPTIONS = ASSUME_CLUSTER + ['a fork child finishes within 0.2 s of virtual time and before a restarted process of the same node writes a dump of its own',
                                'user-supplied serializer functions are the harness\'s own (pickle of the object state + the data tuple)']
BUDGET = dict(quick=dict(runs=480, wall=85, per_run_wall=60), thorough=dict(runs=40000, wall=900, per_run_wall=120))

_c = {}


def snap_classes():
    if _c:
        return _c
    get_classes()
    so = M.so

    class SnapCons(so.SyncObjConsumer):
        def __init__(self):
            so.SyncObjConsumer.__init__(self)
            self.ch = 0
            self.n = 0

        @so.replicated
        def cadd(self, tag):
            self._syncObj._rec(tag, ('cadd',))
            self.ch = mix(self.ch, tag)
            self.n += 1
            return (self.n, self.ch)
    _c['SnapCons'] = SnapCons
    SimObj = get_classes()['SimObj']

    class SnapObj(SimObj):
        """The workload object plus an attribute that comes and goes: the set of attributes of the replicated object is part
        of its state (an attribute deleted before a snapshot's position does not exist after the snapshot was loaded)."""

        @so.replicated
        def setx(self, tag):
            self._rec(tag, ('setx',))
            self.cnt += 1
            self.h = mix(self.h, tag)
            self.x = tag
            return (self.cnt, self.h)

        @so.replicated
        def delx(self, tag):
            self._rec(tag, ('delx',))
            self.cnt += 1
            self.h = mix(self.h, tag)
            if hasattr(self, 'x'):
                del self.x
            return (self.cnt, self.h)
    _c['SnapObj'] = SnapObj
    return _c


class SnapModel(object):
    INIT = (0, 0, (None,) * NKEYS, 0, 0, None)

    @staticmethod
    def step(state, name, args):
        cnt, h, kv, cn, ch, x = state
        tag = args[0]
        if name in ('append', 'echo'):
            (cnt, h, kv), res, _ = KVModel.step((cnt, h, kv), name, args)
            return (cnt, h, kv, cn, ch, x), res, False
        if name == 'cadd':
            ch = mix(ch, tag)
            cn += 1
            return (cnt, h, kv, cn, ch, x), (cn, ch), False
        if name in ('setx', 'delx'):
            cnt += 1
            h = mix(h, tag)
            x = tag if name == 'setx' else None
            return (cnt, h, kv, cn, ch, x), (cnt, h), False
        raise HarnessError('C09 model: %r' % (name,))

    @staticmethod
    def observe(node):
        c = priv(node, 'SyncObj', 'consumers')[0]
        return KVModel.observe(node) + (c.n, c.ch, getattr(node, 'x', None))

    @staticmethod
    def from_snapshot(data0):
        """state tuple from the snapshot's data[0] = [selfData, consumerData]"""
        sd, cd = data0[0], data0[1]
        kv = sd.get('kv', {})
        return (sd.get('cnt'), sd.get('h'), tuple(kv.get(i) for i in range(NKEYS)), cd.get('n'), cd.get('ch'), sd.get('x'))


class SnapApp(KVApp):
    model = SnapModel

    def node_class(self):
        return snap_classes()['SnapObj']

    def make_consumers(self, world, host):
        return [snap_classes()['SnapCons']()]

    def make_conf(self, world, host):
        conf = KVApp.make_conf(self, world, host)
        mode = self.cfg.get('userser')
        if mode:
            idx = host.idx
            st = host.extra.setdefault('userser', dict(pending=0, calls=0))

            def ser(fileName, data):
                w = CTX.world
                node = w.hosts[idx].node
                blob = _pickle.dumps((SnapModel.observe(node), data), 2)
                st['calls'] += 1
                if mode == 'async' and self.cfg.get('userser_background'):
                    # a really asynchronous serializer: the state is captured now, the file is written in the
                    # background - here: one part now, the others one by one each time the checker is asked
                    f = M.sr.open(fileName, 'wb')
                    k = max(1, len(blob) // 3)
                    f.write(blob[:k])
                    f.flush()
                    st['f'] = f
                    st['rest'] = [blob[k:2 * k], blob[2 * k:]]
                    st['pending'] = 0
                    st['done'] = True
                    w.probe('background_serializer_started')
                    return
                with M.sr.open(fileName, 'wb') as f:
                    f.write(blob)
                st['pending'] = 3 if mode == 'async' else 0
                st['done'] = True

            def deser(fileName):
                w = CTX.world
                node = w.hosts[idx].node
                with M.sr.open(fileName, 'rb') as f:
                    state, data = _pickle.loads(f.read())
                node.cnt, node.h = state[0], state[1]
                node.kv = dict((i, v) for i, v in enumerate(state[2]) if v is not None)
                c = priv(node, 'SyncObj', 'consumers')[0]
                c.n, c.ch = state[3], state[4]
                if len(state) > 5 and state[5] is not None:
                    node.x = state[5]
                elif hasattr(node, 'x'):
                    del node.x
                return data

            def checker():
                S = M.cf.SERIALIZER_STATE
                if not st.get('done'):
                    return S.NOT_SERIALIZING
                if st.get('f') is not None:
                    f = st['f']
                    if st['rest']:
                        f.write(st['rest'].pop(0))
                        f.flush()
                        return S.SERIALIZING
                    f.close()
                    st['f'] = None
                    st['done'] = False
                    return S.SUCCESS
                if st['pending'] > 0:
                    st['pending'] -= 1
                    return S.SERIALIZING
                st['done'] = False
                return S.SUCCESS
            conf.serializer, conf.deserializer, conf.serializeChecker = ser, deser, checker
        return conf

    def submit_other(self, world, host, args, cb):
        if args[0] == 'cadd':
            priv(host.node, 'SyncObj', 'consumers')[0].cadd(args[1], callback=cb)
            return 'ok'
        if args[0] == 'setx':
            host.node.setx(args[1], callback=cb)
            return 'ok'
        if args[0] == 'delx':
            host.node.delx(args[1], callback=cb)
            return 'ok'
        raise HarnessError('C09 submit %r' % (args,))


def decode_dump(raw, userser):
    if userser:
        state, data = _pickle.loads(bytes(raw))
        return state, data[0][1], None
    d = _pickle.load(gzip.GzipFile(fileobj=io.BytesIO(bytes(raw))))
    return SnapModel.from_snapshot(d[0]), d[1][1], d


class SnapOracle(RaftOracle):
    def __init__(self, world, app):
        RaftOracle.__init__(self, world, app)
        self.check_log_matching = False
        self.userser = world.cfg.get('userser')
        self.userser_dropped = None
        self.stale_attr = None
        self.installed = set()
        self.queue = []              # (host, raw bytes, where) to verify after the event
        self.produced = 0
        self.verified = 0
        self.known_digests = set()   # digests of snapshots seen complete (for 'foreign' detection at restart)
        self.memblob = {}            # host -> id of the last in-memory blob verified
        self.load_failed = {}        # host -> evno of a failed deserialize
        for h in world.hosts:
            h.fs.on_mutate = self._on_mutate

    def _on_mutate(self, fs, kind, path):
        if path == 'dump' and kind == 'rename':
            raw = fs.files.get('dump')
            if raw is not None:
                self.queue.append((fs.host, bytes(raw), 'dump file after rename'))

    def _stale_attribute(self):
        """A snapshot was installed on a live object: an attribute that was deleted before the snapshot's position must not
        survive on the receiver (the built-in loader only assigns what the snapshot holds)."""
        w = self.w
        for l in w.step_loads:
            if l[1]:
                self.installed.add(l[0])
        for i in sorted(self.installed):
            n = w.hosts[i].node
            if n is None:
                continue
            k = n.raftLastApplied
            if k in self.states and getattr(n, 'x', None) is not None and self.states[k][5] is None:
                self.stale_attr = dict(host=i, position=k, x=getattr(n, 'x', None), evno=w.evno)
                RaftOracle.flag(self, 'deleted_attribute_survives_install', 'host %d installed a snapshot in whose state the attribute x does not exist (deleted by an earlier command); at position %d its object still has x=%r from before the installation' % (
                    i, k, getattr(n, 'x', None)), dict(host=i))
                return

    def flag(self, inv, msg, detail=None):
        if self.stale_attr is None and not self.userser and inv != 'deleted_attribute_survives_install':
            self._extend_model(max(self.G) if self.G else 1)
            self._stale_attribute()
        if self.stale_attr is not None and inv != 'deleted_attribute_survives_install':
            detail = dict(detail or {})
            detail.setdefault('stale_attribute', self.stale_attr)
        if self.userser and self.userser_dropped is not None:
            # the known user-deserializer finding's other face: a received snapshot had to be loaded over a log that
            # reached beyond it (the acknowledged entries after its position are gone) - what follows in this run is
            # marked as its consequence
            detail = dict(detail or {})
            detail.setdefault('userser_tail_dropped', self.userser_dropped)
        RaftOracle.flag(self, inv, msg, detail)

    def after_event(self, ev, out, touched):
        if self.userser and self.userser_dropped is None:
            for l in self.w.step_loads:
                v = self.views.get(l[0])
                if l[1] and v is not None and v.sig is not None and v.sig[1] > l[3]:
                    self.userser_dropped = dict(host=l[0], log_end=v.sig[1], snapshot=l[3], evno=self.w.evno)
                    self.w.probe('userser_snapshot_loaded_over_longer_log')
        RaftOracle.after_event(self, ev, out, touched)
        w = self.w
        if touched is not None:
            h = w.hosts[touched]
            n = h.node
            if n is not None and not w.cfg['conf'].get('dump'):
                ser = priv(n, 'SyncObj', 'serializer')
                blob = priv(ser, 'Serializer', 'inMemorySerializedData')
                if blob is not None and self.memblob.get(touched) != id(blob):
                    self.memblob[touched] = id(blob)
                    self.queue.append((touched, bytes(blob), 'in-memory snapshot'))
                lg = log_of(n)
                if blob is None and len(lg) > 0 and lg[0][1] > 1 and priv(ser, 'Serializer', 'pid') == 0 and not h.doomed:
                    # "after compaction a node can still bring any lagging or new follower up to date": a node whose log
                    # no longer starts at the beginning must hold the snapshot that replaces the missing part
                    self.flag('compacted_without_snapshot', 'host %d: its log starts at position %d but it holds no snapshot (in-memory mode): it can never bring a follower that is further behind up to date' % (
                        touched, lg[0][1]))
        q, self.queue = self.queue, []
        for host, raw, where in q:
            self._verify(host, raw, where)

    def _verify(self, host, raw, where):
        self.produced += 1
        try:
            state, k, full = decode_dump(raw, self.userser)
        except Exception as e:
            self.flag('dump_not_decodable', 'host %d: %s (%d bytes) cannot be decoded: %r' % (host, where, len(raw), e))
            return
        if not self._extend_model(k):
            self.flag('snapshot_position_mismatch', 'host %d: %s claims position %d which is beyond everything reported committed (%d)' % (host, where, k, self.model_top))
            return
        self.verified += 1
        want = self.states[k]
        if tuple(state) != tuple(want):
            self.flag('snapshot_state_mismatch', 'host %d: %s for position %d holds %r, the reference execution of the first %d positions gives %r' % (
                host, where, k, state, k, want))
        if full is not None:
            if norm(full[1]) != self.G.get(k) or (k - 1 in self.G and norm(full[2]) != self.G.get(k - 1)):
                self.flag('snapshot_position_mismatch', 'host %d: %s stores entries %r / %r for positions %d / %d that differ from the common sequence' % (
                    host, where, full[1][1:], full[2][1:], k, k - 1))
        import hashlib
        self.known_digests.add(hashlib.sha256(raw).hexdigest())

    def on_start(self, host):
        # (c) what a restarted node finds at the dump path is a complete snapshot that was produced earlier
        raw = host.fs.files.get('dump')
        if raw is not None and host.inc > 1:
            import hashlib
            try:
                decode_dump(raw, self.userser)
            except Exception as e:
                self.flag('dump_not_decodable', 'host %d restarts with a dump file (%d bytes) that cannot be decoded: %r' % (host.idx, len(raw), e),
                          dict(kill=list(host.fs.killed_in) if host.fs.killed_in else None))
            else:
                if hashlib.sha256(bytes(raw)).hexdigest() not in self.known_digests:
                    self.queue.append((host.idx, bytes(raw), 'dump file found at restart'))
        RaftOracle.on_start(self, host)

    def summary(self):
        s = RaftOracle.summary(self)
        s.update(snapshots_seen=self.produced, snapshots_verified=self.verified)
        return s


class SnapTap(object):
    """A node must not tell the leader 'success' right after a snapshot load that failed."""

    def __init__(self, world, oracle):
        self.w = world
        self.o = oracle

    def on_send(self, src, node, msg, ok):
        if isinstance(msg, dict) and msg.get('type') == 'next_node_idx' and msg.get('success'):
            ev = self.o.load_failed.get(src)
            if ev is not None and ev == self.w.evno and self.o.load_failed_pending.get(src):
                self.o.load_failed_pending[src] = False
                self.o.flag('failed_load_acknowledged', 'host %d could not load the snapshot it received (deserialize raised) but acknowledged it to the leader with success, next index %d' % (
                    src, msg.get('next_node_idx')))

    def on_recv(self, dst, node, msg):
        pass


_wrapped = {}


def wrap_deserialize():
    if _wrapped:
        return
    install()
    orig = M.sr.Serializer.deserialize

    def deserialize(self):
        try:
            return orig(self)
        except Exception:
            w = CTX.world
            if w is not None and w.oracle is not None and hasattr(w.oracle, 'load_failed'):
                w.oracle.load_failed[w.cur] = w.evno
                w.oracle.load_failed_pending[w.cur] = True
                w.probe('snapshot_deserialize_failed')
                h = w.hosts[w.cur]
                if h.node is not None and not h.doomed and getattr(h.node, '_vsim_started', True):
                    # a snapshot whose last chunk has arrived (or the node's own dump) must decode: transfers may be
                    # interrupted and restarted, but what is finally assembled is one complete snapshot of the sender
                    w.oracle.flag('received_snapshot_corrupt', 'host %d: a completely received snapshot (or its own dump) could not be decoded: %s' % (
                        w.cur, repr(sys.exc_info()[1])[:120]))
            raise
    M.sr.Serializer.deserialize = deserialize
    _wrapped['x'] = True


class SnapSched(Scheduler):
    def make_submit(self):
        ev = Scheduler.make_submit(self)
        if ev is not None and self.rng.random() < 0.3:
            return ['sub', ev[1], 'cadd', ev[3]]
        if ev is not None and self.rng.random() < 0.2:
            return ['sub', ev[1], self.rng.choice(['setx', 'delx']), ev[3]]
        return ev


class C09Spec(c01.C01Spec):
    churn_share = 0
    prop = PROP
    invariants = INVARIANTS

    def draw(self, rng, tier='quick'):
        cfg = c01.C01Spec.draw(self, rng, tier)
        cfg['n_voters'] = rng.choice([2, 3, 3, 4])
        conf = cfg['conf']
        conf['logCompactionMinEntries'] = rng.choice([2, 3, 5, 10])
        conf['logCompactionMinTime'] = rng.choice([0.5, 2, 1 << 30])
        conf['logCompactionBatchSize'] = rng.choice([1, 7, 64, 200, 1024, 1 << 16])
        mode = rng.choice(['memory', 'file', 'fork', 'user-sync', 'user-async', 'file+journal', 'fork+journal'])
        conf['dump'] = mode != 'memory'
        conf['useFork'] = mode.startswith('fork')
        conf['journal'] = mode.endswith('journal')
        cfg['userser'] = {'user-sync': 'sync', 'user-async': 'async'}.get(mode)
        cfg['userser_background'] = (mode == 'user-async' and rng.random() < 0.6)
        cfg['placement'] = mode
        if conf['logCompactionBatchSize'] < 64:
            cfg['cpu_cost'] = min(cfg['cpu_cost'], 1e-4)
        s = cfg['sched']
        s['steps'] = rng.choice([2500, 4000])
        s['w_rst'] = rng.choice([0.03, 0.1, 0.2])
        s['w_hold'] = rng.choice([0.02, 0.06])
        s['w_part'] = rng.choice([0.0, 0.005])
        s['w_compact'] = rng.choice([0.01, 0.05])
        s['w_stall'] = rng.choice([0.0, 0.02])
        s['w_sub'] = rng.choice([0.35, 0.8])
        conf['connectionRetryTime'] = rng.choice([0, 0, 0.5])
        if conf['useFork']:
            s['w_childkill'] = rng.choice([0.0, 0.02, 0.1])
        if conf['journal']:
            s['w_kill'] = rng.choice([0.005, 0.02])
            s['w_killop'] = rng.choice([0.0, 0.02])
            s['w_start'] = 0.4
            s['max_down'] = 1
        return cfg

    def make_app(self, cfg):
        wrap_deserialize()
        return SnapApp(cfg)

    def make_oracle(self, world, app):
        o = SnapOracle(world, app)
        o.load_failed_pending = {}
        return o

    def make_tap(self, world, oracle):
        return SnapTap(world, oracle)

    def make_sched(self, world, rng, cfg):
        return SnapSched(world, rng, cfg)

    def quiet(self, w, orc, sch, apply):
        for h in w.hosts:
            if h.node is None and h.member:
                apply([0.0, 'start', h.idx])
        before = len(orc.violations)
        c05.SPEC.quiet(w, orc, sch, apply)
        for v in orc.violations[before:]:
            if v.inv in c05.INVARIANTS:
                orc.flag('lagging_node_not_caught_up', 'after the quiet period: %s' % v.msg, v.detail)
                break

    def nontrivial(self, res):
        sm = res['summary']
        p = res['probes']
        return sm.get('snapshots_verified', 0) > 0 and (p.get('snapshot_install', 0) + p.get('dump_load_on_start', 0)) > 0


SPEC = C09Spec()


# -- the member set is part of what a snapshot restores ----------------------------------------------
# One run in five uses C10's membership machinery (spare hosts, joiners, add/remove through the public API, the
# reference fold of membership commands over the common sequence) on a benign network with aggressive compaction:
# joiners and restarted nodes catch up from snapshots, many of them taken right at a membership entry.
from . import c10 as _c10

INV_PROP['snapshot_member_set_mismatch'] = PROP
INVARIANTS = INVARIANTS + ('snapshot_member_set_mismatch',)
SPEC.invariants = INVARIANTS


class SnapMemberOracle(_c10.MemberOracle):
    def __init__(self, world, app):
        _c10.MemberOracle.__init__(self, world, app)
        self.loaded = {}           # host -> (incarnation, position of the last snapshot it loaded)

    def after_event(self, ev, out, touched):
        w = self.w
        for l in w.step_loads:
            self.loaded[l[0]] = (w.hosts[l[0]].inc, l[3])
            w.probe('member_run_snapshot_load')
        before = len(self.violations)
        _c10.MemberOracle.after_event(self, ev, out, touched)
        if touched is None:
            return
        for v in self.violations[before:]:
            if v.inv != 'member_set_mismatch' or (v.detail or {}).get('reapplied_at_commit'):
                continue
            if (v.detail or {}).get('snapshot') is not None:
                # the (in-memory) snapshot itself stores another member set than the common sequence defines at its position
                self.flag('snapshot_member_set_mismatch', v.msg, v.detail)
                continue
            h = w.hosts[touched]
            ld = self.loaded.get(touched)
            n = h.node
            # attributable to the snapshot: this process loaded one and has not appended a membership entry since
            if ld is not None and n is not None and ld[0] == h.inc:
                ents = log_of_(n)
                later = [e for e in ents if e[1] > ld[1] and self.app.decode(_c10.norm(e)[0])[0] == 'member']
                if not later:
                    self.flag('snapshot_member_set_mismatch', 'after loading the snapshot of position %d: %s' % (ld[1], v.msg), v.detail)


def log_of_(n):
    return _c10.log_of(n)[:]


class C09MemberSpec(_c10.C10Spec):
    prop = PROP
    invariants = INVARIANTS

    def draw(self, rng, tier='quick'):
        cfg = _c10.C10Spec.draw(self, rng, tier)
        cfg['c09_member'] = True
        conf = cfg['conf']
        conf['logCompactionMinEntries'] = rng.choice([2, 2, 3, 5])
        conf['logCompactionMinTime'] = rng.choice([0.2, 0.5, 1 << 30])
        conf['logCompactionBatchSize'] = rng.choice([64, 200, 1024, 1 << 16])
        s = cfg['sched']
        s['w_part'] = 0.0
        s['w_rst'] = 0.0
        s['w_hold'] = 0.0
        s['w_stall'] = 0.0
        s['w_compact'] = rng.choice([0.05, 0.1, 0.3])
        s['w_sub'] = rng.choice([0.05, 0.2])
        s['w_member'] = rng.choice([0.05, 0.15])
        s['steps'] = rng.choice([2000, 3500])
        return cfg

    def make_oracle(self, world, app):
        return SnapMemberOracle(world, app)

    def nontrivial(self, res):
        return res['probes'].get('member_run_snapshot_load', 0) > 0 and res['summary'].get('member_commits', 0) >= 1


MSPEC = C09MemberSpec()


def run(seed, tier, cfg=None, events=None):
    member = cfg.get('c09_member') if cfg is not None else (seed % 5 == 4)
    return run_cluster(seed, MSPEC if member else SPEC, cfg=cfg, events=events, tier=tier)


def match_known(k, viol, events, cfg):
    m = k.get('match', {})
    if viol['inv'] not in m.get('invariants', []):
        return False
    if m.get('kind') == 'userser':
        return bool(cfg.get('userser'))
    if m.get('kind') == 'stale_attribute':
        # the installed snapshot did not remove an attribute that had been deleted: that violation and what follows from it
        return viol['inv'] == 'deleted_attribute_survives_install' or bool((viol.get('detail') or {}).get('stale_attribute'))
    if m.get('kind') == 'userser_after_stale_load':
        # consequences of the stale snapshot load (K-C09-userser-stale-snapshot) later in the same run: the applied index
        # went back, or the snapshot was loaded over a log that reached beyond it
        d = viol.get('detail') or {}
        return bool(cfg.get('userser')) and ('applied_back' in (d.get('after') or []) or bool(d.get('userser_tail_dropped')))
    return False
