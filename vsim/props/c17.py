"""C17 Code versions: stable method ids, cluster-wide switch, survives snapshot/restart.

(a) programs: class definitions are generated as source text (random method names and
versions on the object and on several consumers); "new code" = old code + methods whose
version exceeds every old version.  For every generated pair the ids of all old methods
must be unchanged.  This sub-claim is a pure function of the class definitions (no
schedule); it is enumerated over generated programs and reported as such.
(b) cluster: nodes running old and new code, rolling restarts onto new code,
setCodeVersion at any position relative to calls, compaction, snapshot install, restart.
"""
import random
import hashlib
import time as _time

from .common import *
from . import c01, c05
from ..oracle import INV_PROP, RaftOracle, log_of
from ..workload import KVApp, get_classes, mix, NKEYS, CONF_KEYS
from ..world import World
from ..boot import CTX, M, install, priv, HarnessError

PROP = 'C17'
LEVEL = 'exploration'
OWN = ('method_id_changed', 'wrong_version_called', 'enabled_version_mismatch', 'name_table_mismatch', 'setversion_not_rejected',
       'setversion_wrongly_rejected', 'old_node_passed_version_entry', 'old_node_reapplied')
INVARIANTS = OWN + ('apply_order', 'apply_conflict', 'state_mismatch', 'apply_skip')
for _i in OWN:
    INV_PROP[_i] = PROP
RULE = ('program cases: one generated pair (old classes, new classes = old + methods with higher versions) on the object and 0-3 '
        'consumers, instantiated under SyncObj; ids of all old methods are compared; cluster cases: one seeded execution of a '
        '3-4 voter cluster whose nodes run old (version 0) or new (versions 0 and 1) code, with rolling restarts onto new code, '
        'setCodeVersion requests (valid, unsupported and lower) at scheduler-chosen positions, compaction, snapshot installs and '
        'journal+dump restarts; every implementation tags its execution with its version; distinct = distinct digest; '
        'non-trivial = program: at least one method was added with a higher version; cluster: a version switch was committed '
        'with at least one call before and one after it, and a snapshot was loaded (install or restart) afterwards')
COMPONENTS_REAL = REAL_CLUSTER
COMPONENTS_STUB = STUB_CLUSTER
ASSUMPTIONS = ASSUME_CLUSTER + ['part (a) has no schedule, clock or fault in it: it is program enumeration run next to the simulator',
                                'operator discipline for (b): setCodeVersion(1) is requested only through nodes that run new code (the API rejects it elsewhere)']
BUDGET = dict(quick=dict(runs=960, wall=80, per_run_wall=60), thorough=dict(runs=60000, wall=900, per_run_wall=120))
WANTS_K = True


# ---------------------------------------------------------------------------------------------
# (a) generated programs
# ---------------------------------------------------------------------------------------------
NAMES = ['alpha', 'beta', 'gamma', 'delta', 'put', 'z9', 'A', 'add']


def gen_program(rng):
    """-> dict(obj=[(name, ver)...], consumers=[[(name, ver)...], ...]) old and new"""
    def methods(maxver):
        ms = set()
        for _ in range(rng.randrange(1, 5)):
            ms.add((rng.choice(NAMES), rng.randrange(0, maxver + 1)))
        return sorted(ms)
    maxver = rng.choice([0, 0, 1, 2])
    old = dict(obj=methods(maxver), consumers=[methods(maxver) for _ in range(rng.randrange(0, 4))])
    top = max([v for _, v in old['obj']] + [v for c in old['consumers'] for _, v in c])
    new = dict(obj=list(old['obj']), consumers=[list(c) for c in old['consumers']])
    added = 0
    for target in [new['obj']] + new['consumers']:
        for _ in range(rng.randrange(0, 3)):
            m = (rng.choice(NAMES), top + rng.randrange(1, 3))
            if m not in target:
                target.append(m)
                added += 1
    if rng.random() < 0.3:
        new['consumers'].append([(rng.choice(NAMES), top + 1)])      # a whole new consumer, appended
        added += 1
    # version numbers need not be small or dense
    scale = rng.choice([None, None, [0, 2, 8, 9, 17, 33, 64, 100], [0, 1, 8, 10, 11, 12, 40, 41], [0, 7, 8, 15, 16, 31, 32, 63]])
    if scale is not None:
        def rs(prog):
            return dict(obj=[(n, scale[v]) for n, v in prog['obj']], consumers=[[(n, scale[v]) for n, v in c] for c in prog['consumers']])
        old, new = rs(old), rs(new)
    return old, new, added


def build_source(prog, tag):
    lines = ['class Obj_%s(SyncObj):' % tag,
             '    def __init__(self, vh, me, others, conf, consumers):',
             '        self._vh = vh',
             '        SyncObj.__init__(self, me, others, conf, consumers=consumers)']
    for name, ver in prog['obj']:
        lines += ['    @replicated(ver=%d)' % ver, '    def %s(self, x):' % name, '        return (%r, %d, x)' % (name, ver)]
    for ci, c in enumerate(prog['consumers']):
        lines += ['class Cons%d_%s(SyncObjConsumer):' % (ci, tag)]
        if not c:
            lines += ['    pass']
        for name, ver in c:
            lines += ['    @replicated(ver=%d)' % ver, '    def %s(self, x):' % name, '        return (%r, %d, x)' % (name, ver)]
    return '\n'.join(lines) + '\n'


def ids_of(prog, tag, world):
    so = M.so
    ns = dict(SyncObj=so.SyncObj, SyncObjConsumer=so.SyncObjConsumer, replicated=so.replicated)
    exec(compile(build_source(prog, tag), '<c17-%s>' % tag, 'exec'), ns)
    consumers = [ns['Cons%d_%s' % (ci, tag)]() for ci in range(len(prog['consumers']))]
    conf = M.cf.SyncObjConf(autoTick=False)
    world.cur = 0
    node = ns['Obj_%s' % tag](world.hosts[0], world.hosts[0].addr, [], conf, consumers)
    out = {}
    for key, fid in node._methodToID.items():
        if isinstance(key, tuple):
            ci = [id(c) for c in consumers].index(key[0])
            out[(ci + 1, key[1])] = fid
        else:
            out[(0, key)] = fid
    # what each id executes
    impl = dict((fid, (getattr(m, '__self__', None) is node and 0 or (consumers.index(m.__self__) + 1 if getattr(m, '__self__', None) in consumers else 0), m.__name__))
                for fid, m in node._idToMethod.items())
    node._destroy()
    world.net.kernel_close_host(0)
    return out, impl


def switch_and_call(prog, tag, world):
    """A single-node cluster running the new code: the enabled version is raised step by step through every version
    number that occurs; after each step every method is called by its plain name and must run its newest
    implementation whose version is not above the enabled one (each implementation returns (name, version, x))."""
    so = M.so
    ns = dict(SyncObj=so.SyncObj, SyncObjConsumer=so.SyncObjConsumer, replicated=so.replicated)
    exec(compile(build_source(prog, tag), '<c17-%s>' % tag, 'exec'), ns)
    consumers = [ns['Cons%d_%s' % (ci, tag)]() for ci in range(len(prog['consumers']))]
    conf = M.cf.SyncObjConf(autoTick=False, raftMinTimeout=0.4, raftMaxTimeout=0.6, appendEntriesPeriod=0.1)
    world.cur = 0
    node = ns['Obj_%s' % tag](world.hosts[0], world.hosts[0].addr, [], conf, consumers)
    targets = [(node, prog['obj'])] + [(consumers[ci], c) for ci, c in enumerate(prog['consumers'])]

    def ticks(k):
        for _ in range(k):
            world.T += 0.05
            node._onTick(0.0)
    problem = None
    try:
        for _ in range(40):
            ticks(1)
            if node._isLeader():
                break
        vers = sorted(set(v for _, ms in targets for _, v in ms))
        for v in vers:
            if v > 0:
                node.setCodeVersion(v, callback=lambda r, e: None)
                ticks(4)
            if node.getCodeVersion() != v:
                problem = 'setCodeVersion(%d) on a single node running code of version %d left the enabled version at %r' % (v, max(vers), node.getCodeVersion())
                break
            for ti, (target, ms) in enumerate(targets):
                for name in sorted(set(n for n, _ in ms)):
                    cands = [ver for n, ver in ms if n == name and ver <= v]
                    if not cands:
                        continue
                    out = []
                    try:
                        getattr(target, name)(7, callback=lambda r, e: out.append((r, e)))
                        ticks(3)
                    except Exception as e:
                        problem = 'enabled version %d: calling %s of %s raised %r' % (v, name, 'the object' if ti == 0 else 'consumer %d' % (ti - 1), e)
                        break
                    if not out or out[0][1] != 0 or not isinstance(out[0][0], tuple) or out[0][0][1] != max(cands):
                        problem = 'enabled version %d: %s of %s (implementations for versions %r) ran %r, expected the implementation of version %d' % (
                            v, name, 'the object' if ti == 0 else 'consumer %d' % (ti - 1), sorted(ver for n, ver in ms if n == name), out[:1], max(cands))
                        break
                if problem:
                    break
            if problem:
                break
    finally:
        node._destroy()
        world.net.kernel_close_host(0)
    return problem


def run_program(seed, cfg, events):
    t0 = _time.time()
    install()
    rng = random.Random(seed)
    if events is None:
        old, new, added = gen_program(rng)
        events = [dict(old=old, new=new, added=added)]
    ev = events[0]
    old, new = ev['old'], ev['new']
    old = dict(obj=[tuple(m) for m in old['obj']], consumers=[[tuple(m) for m in c] for c in old['consumers']])
    new = dict(obj=[tuple(m) for m in new['obj']], consumers=[[tuple(m) for m in c] for c in new['consumers']])
    w = World(seed, dict(n_voters=1), None)
    CTX.world = w
    viol = []
    ids_old, impl_old = ids_of(old, 'old', w)
    w2 = World(seed, dict(n_voters=1), None)
    CTX.world = w2
    ids_new, impl_new = ids_of(new, 'new', w2)
    for key, fid in sorted(ids_old.items()):
        if ids_new.get(key) != fid:
            viol.append(dict(inv='method_id_changed', prop=PROP, evno=1, detail=dict(old=build_source(old, 'old'), new=build_source(new, 'new')),
                             msg='method %r of %s has id %d in the old code and %r in the new code' % (key[1], 'the object' if key[0] == 0 else 'consumer %d' % (key[0] - 1), fid, ids_new.get(key))))
            break
        if impl_new.get(fid) != impl_old.get(fid):
            viol.append(dict(inv='method_id_changed', prop=PROP, evno=1, detail=None,
                             msg='log entries with method id %d execute %r in the old code and %r in the new code' % (fid, impl_old.get(fid), impl_new.get(fid))))
            break
    if not viol:
        w3 = World(seed, dict(n_voters=1), None)
        CTX.world = w3
        problem = switch_and_call(new, 'sw', w3)
        if problem:
            viol.append(dict(inv='wrong_version_called', prop=PROP, evno=1, detail=dict(new=build_source(new, 'new')), msg=problem))
    CTX.world = None
    dig = hashlib.sha256(repr((old, new)).encode()).hexdigest()
    return dict(seed=seed, cfg=dict(mode='program'), events=events, n_events=1, sim_time=0.0, digest=dig, violations=viol, cross=[],
                probes=dict(programs=1, methods_added=ev.get('added', 0)), faults={}, net={}, summary=dict(programs=1), n_tick_exc=0, tick_exc=[],
                states=set(), aborted=None, wall=_time.time() - t0, nontrivial=ev.get('added', 0) > 0)


# ---------------------------------------------------------------------------------------------
# (b) cluster with old and new code
# ---------------------------------------------------------------------------------------------
_vclasses = {}


def version_classes():
    if _vclasses:
        return _vclasses
    get_classes()
    so = M.so
    SyncObj, SyncObjConsumer, replicated = so.SyncObj, so.SyncObjConsumer, so.replicated

    class ConsOld(SyncObjConsumer):
        def __init__(self):
            SyncObjConsumer.__init__(self)
            self.ch = 0

        @replicated
        def cop(self, tag):
            self._syncObj._rec(tag, ('cop', 0))
            self.ch = mix(self.ch, tag * 4 + 0)
            return ('cop', 0, self.ch)

    class ConsNew(SyncObjConsumer):
        def __init__(self):
            SyncObjConsumer.__init__(self)
            self.ch = 0

        @replicated
        def cop(self, tag):
            self._syncObj._rec(tag, ('cop', 0))
            self.ch = mix(self.ch, tag * 4 + 0)
            return ('cop', 0, self.ch)

        @replicated(ver=1)
        def cop(self, tag):
            self._syncObj._rec(tag, ('cop', 1))
            self.ch = mix(self.ch, tag * 4 + 1)
            return ('cop', 1, self.ch)

    class Base(SyncObj):
        def __init__(self, vh, me, others, conf, consumers=None):
            self._vh = vh
            self._vw = CTX.world
            SyncObj.__init__(self, me, others, conf, consumers=consumers)
            self.cnt = 0
            self.h = 0

        def _rec(self, tag, extra=None):
            w, vh = self._vw, self._vh
            if not vh.doomed:
                w.step_applies.append((vh.idx, vh.inc, self.raftLastApplied + 1, tag, extra))

    class ObjOld(Base):
        @replicated
        def op(self, tag):
            self._rec(tag, ('op', 0))
            self.cnt += 1
            self.h = mix(self.h, tag * 4 + 0)
            return ('op', 0, self.h)

        @replicated
        def append(self, tag, pad=None):
            self._rec(tag, ('append', 0))
            self.cnt += 1
            self.h = mix(self.h, tag * 4 + 2)
            return ('append', 0, self.h)

    class ObjNew(Base):
        @replicated
        def op(self, tag):
            self._rec(tag, ('op', 0))
            self.cnt += 1
            self.h = mix(self.h, tag * 4 + 0)
            return ('op', 0, self.h)

        @replicated
        def append(self, tag, pad=None):
            self._rec(tag, ('append', 0))
            self.cnt += 1
            self.h = mix(self.h, tag * 4 + 2)
            return ('append', 0, self.h)

        @replicated(ver=1)
        def op(self, tag):
            self._rec(tag, ('op', 1))
            self.cnt += 1
            self.h = mix(self.h, tag * 4 + 1)
            return ('op', 1, self.h)

        @replicated(ver=1)
        def extra(self, tag):
            self._rec(tag, ('extra', 1))
            self.cnt += 1
            self.h = mix(self.h, tag * 4 + 3)
            return ('extra', 1, self.h)

    _vclasses.update(ObjOld=ObjOld, ObjNew=ObjNew, ConsOld=ConsOld, ConsNew=ConsNew)
    return _vclasses


SALT = {('op', 0): 0, ('op', 1): 1, ('append', 0): 2, ('extra', 1): 3}


class VerModel(object):
    INIT = (0, 0, 0)      # cnt, h, consumer hash

    @staticmethod
    def step(state, name, args):
        # name = (owner, method, version)
        owner, meth, ver = name
        tag = args[0]
        cnt, h, ch = state
        if owner == 0:
            h = mix(h, tag * 4 + SALT[(meth, ver)])
            return (cnt + 1, h, ch), (meth, ver, h), False
        ch = mix(ch, tag * 4 + ver)
        return (cnt, h, ch), (meth, ver, ch), False

    @staticmethod
    def observe(node):
        cons = priv(node, 'SyncObj', 'consumers')
        return (node.cnt, node.h, cons[0].ch)


class VerApp(KVApp):
    model = VerModel

    def make_conf(self, world, host):
        conf = KVApp.make_conf(self, world, host)
        if self.cfg.get('version_callback'):
            # the application reacts to the switch at once: its onCodeVersionChanged callback calls a versioned method
            # (getCodeVersion() reports the new version there, so the call has to resolve to the new implementation)
            idx = host.idx
            app = self

            def on_version(old, new):
                w = CTX.world
                if w is None:
                    return
                h = w.hosts[idx]
                if h.doomed or h.node is None:
                    return
                n = h.extra.get('vcb_n', 0)
                h.extra['vcb_n'] = n + 1
                tag = 800000 + idx * 10000 + h.inc * 100 + n
                w.probe('call_from_version_callback')
                app.submit(w, h, ['op', tag])
            conf.onCodeVersionChanged = on_version
        return conf

    def make_node(self, world, host):
        vc = version_classes()
        code = host.extra.get('code', 'old')
        cls = vc['ObjNew' if code == 'new' else 'ObjOld']
        cons = [vc['ConsNew' if code == 'new' else 'ConsOld']()]
        conf = self.make_conf(world, host)
        host.extra['running'] = code
        node = cls(host, host.addr, self.peers_of(world, host), conf, consumers=cons)
        if code == 'new' or self.idmap is None:
            m = {}
            for fid, meth in node._idToMethod.items():
                owner = 0 if getattr(meth, '__self__', None) is node else 1
                nm, ver = meth.__name__.rsplit('_v', 1)
                m[fid] = (owner, nm, int(ver))
            if self.idmap is None or len(m) >= len(self.idmap):
                self.idmap = m
        return node

    def submit_other(self, world, host, args, cb):
        kind, tag = args[0], args[1]
        node = host.node
        if world.oracle is not None:
            world.oracle.enabled_at_submit[tag] = (kind, node.getCodeVersion(), host.extra.get('running', 'old'))
        if kind == 'op':
            node.op(tag, callback=cb)
        elif kind == 'cop':
            priv(node, 'SyncObj', 'consumers')[0].cop(tag, callback=cb)
        elif kind == 'extra':
            node.extra(tag, callback=cb)
        else:
            raise HarnessError('C17 submit %r' % (args,))
        return 'ok'

    def apply_event(self, world, ev):
        k = ev[1]
        if k == 'setver':
            h = world.hosts[ev[2]]
            if h.node is None:
                return 'down'
            world.cur = h.idx
            tag = ev[4]
            idx = h.idx

            def cb(res, err):
                w = CTX.world
                if w is not None and not w.hosts[idx].doomed:
                    w.step_callbacks.append((tag, res, err, idx, None))
            if world.oracle is not None:
                world.oracle._pre_enabled = h.node.getCodeVersion()
            try:
                h.node.setCodeVersion(ev[3], cb)
                out = 'accepted'
            except Exception as e:
                out = 'rejected:' + type(e).__name__
            return (out, h.idx)
        if k == 'upgrade':
            h = world.hosts[ev[2]]
            h.extra['code'] = 'new'
            world.fault('upgrade_to_new_code')
            return 'ok'
        raise HarnessError('unknown event %r' % (ev,))


class VerOracle(RaftOracle):
    def __init__(self, world, app):
        RaftOracle.__init__(self, world, app)
        self.enabled_at_submit = {}     # tag -> (method, enabled version of the submitting node, its code)
        self.ver_entries = {}           # pos -> version (VERSION commands in G)
        self.check_log_matching = False
        self.calls_before = 0
        self.calls_after = 0
        self.loads_after_switch = 0

    def _index_G(self, p, e):
        RaftOracle._index_G(self, p, e)
        d = self.Gdec[p]
        if d[0] == 'version':
            self.ver_entries[p] = d[2]
        elif d[0] == 'regular' and isinstance(d[1], tuple):
            owner, meth, ver = d[1]
            tag = d[2][0]
            if self.ver_entries:
                self.calls_after += 1
            else:
                self.calls_before += 1
            sub = self.enabled_at_submit.get(tag)
            if sub is not None:
                want = 1 if (sub[1] >= 1 and sub[2] == 'new' and (meth, 1) in (('op', 1), ('cop', 1), ('extra', 1))) else 0
                if ver != want:
                    self.flag('wrong_version_called', 'call %r of %s submitted on a node with enabled version %d (%s code) was logged as version %d, expected %d' % (
                        tag, meth, sub[1], sub[2], ver, want))

    def enabled_at(self, pos):
        v = 0
        for p, ver in self.ver_entries.items():
            if p <= pos and ver > v:
                v = ver
        return v

    def after_event(self, ev, out, touched):
        w = self.w
        if ev[1] == 'sub':
            h = w.hosts[ev[2]]
            if h.node is not None or out == 'died':
                pass
        RaftOracle.after_event(self, ev, out, touched)
        if ev[1] == 'setver':
            h = w.hosts[ev[2]]
            n = h.node
            if n is not None and isinstance(out, str):
                code_ver = 1 if h.extra.get('running') == 'new' else 0
                pre = self._pre_enabled
                should_reject = ev[3] > code_ver or ev[3] < pre
                if should_reject and out == 'accepted':
                    self.flag('setversion_not_rejected', 'setCodeVersion(%d) on host %d (code supports %d, enabled %d) was accepted' % (ev[3], h.idx, code_ver, pre))
                if not should_reject and out.startswith('rejected'):
                    self.flag('setversion_wrongly_rejected', 'setCodeVersion(%d) on host %d (code supports %d, enabled %d) was rejected: %s' % (ev[3], h.idx, code_ver, pre, out))
        if touched is not None:
            h = w.hosts[touched]
            n = h.node
            if n is not None and len(log_of(n)):
                self._versions(h, n)

    def _versions(self, h, n):
        a = n.raftLastApplied
        code_ver = 1 if h.extra.get('running') == 'new' else 0
        # a node that lacks an enabled version stops right before that entry
        for p, ver in self.ver_entries.items():
            if ver > code_ver and a >= p:
                self.flag('old_node_passed_version_entry', 'host %d runs code that supports version %d but has applied position %d, beyond the entry at %d that enables version %d' % (
                    h.idx, code_ver, a, p, ver))
                return
        if not self._extend_model(a):
            return
        want = self.enabled_at(a)
        if n.getCodeVersion() != want:
            self.flag('enabled_version_mismatch', 'host %d reports code version %d after applying %d positions, the common sequence enables %d' % (h.idx, n.getCodeVersion(), a, want))
        eff = min(want, code_ver)
        for meth, owner in (('op', 0), ('cop', 1)):
            try:
                if owner == 0:
                    nm = n._getFuncName(meth)
                else:
                    nm = n._getFuncName((id(priv(n, 'SyncObj', 'consumers')[0]), meth))
            except Exception as e:
                nm = 'exc:%r' % (e,)
            if nm != '%s_v%d' % (meth, eff):
                self.flag('name_table_mismatch', 'host %d (enabled version %d, code supports %d) resolves %s to %s' % (h.idx, want, code_ver, meth, nm),
                          dict(loads=[l for l in self.w.step_loads]))
                return
        if self.w.step_loads and self.ver_entries:
            self.loads_after_switch += 1

    def summary(self):
        s = RaftOracle.summary(self)
        s.update(calls_before_switch=self.calls_before, calls_after_switch=self.calls_after, version_switches=len(self.ver_entries),
                 loads_after_switch=self.loads_after_switch)
        return s


class VerSched(Scheduler):
    def __init__(self, world, rng, cfg):
        Scheduler.__init__(self, world, rng, cfg)
        self.switched = False

    def make_submit(self):
        w, rng = self.w, self.rng
        ups = [h for h in w.hosts if h.node is not None]
        if not ups:
            return None
        h = rng.choice(ups)
        tag = self.next_tag
        self.next_tag += 1
        self.nsubs += 1
        kinds = ['op', 'op', 'cop']
        if h.extra.get('running') == 'new' and h.node.getCodeVersion() >= 1:
            kinds.append('extra')
        kind = rng.choice(kinds)
        return ['sub', h.idx, kind, tag]

    def extra_choices(self, items):
        w = self.w
        s = self.s
        olds = [h for h in w.hosts if h.extra.get('code', 'old') == 'old' and not h.readonly]
        if olds:
            items.append((s.get('w_upgrade', 0.01), 'upgrade'))
        items.append((s.get('w_setver', 0.01), 'setver'))

    def build_extra(self, k, dt):
        w, rng = self.w, self.rng
        if k == 'upgrade':
            olds = [h.idx for h in w.hosts if h.extra.get('code', 'old') == 'old' and not h.readonly]
            i = rng.choice(olds)
            self.pending_restart = i
            self.queue_after = [[0.0, 'kill', i, 1], [rng.choice([0.0, 0.05, 0.5]), 'start', i]] if w.hosts[i].node is not None else [[0.0, 'start', i]]
            return [dt, 'upgrade', i]
        if k == 'setver':
            ups = [h for h in w.hosts if h.node is not None]
            if not ups:
                return [dt, 'nop']
            h = rng.choice(ups)
            v = rng.choice([1, 1, 1, 0, 2])
            tag = self.next_tag
            self.next_tag += 1
            return [dt, 'setver', h.idx, v, tag]
        return Scheduler.build_extra(self, k, dt)

    def next_event(self):
        q = getattr(self, 'queue_after', None)
        if q:
            return q.pop(0)
        return Scheduler.next_event(self)


class C17Spec(c01.C01Spec):
    prop = PROP
    guide_share = 0
    invariants = INVARIANTS

    def draw(self, rng, tier='quick'):
        cfg = c01.C01Spec.draw(self, rng, tier)
        cfg['mode'] = 'cluster'
        cfg['n_voters'] = rng.choice([3, 3, 4])
        conf = cfg['conf']
        conf['journal'] = True
        conf['dump'] = True
        conf['useFork'] = False
        conf['logCompactionMinEntries'] = rng.choice([3, 8, 20])
        conf['logCompactionMinTime'] = rng.choice([0.5, 2])
        cfg['placement'] = 'journal+dump'
        cfg['n_new'] = rng.choice([0, 1, 2, cfg['n_voters']])
        s = cfg['sched']
        s['steps'] = 3000
        s['max_subs'] = 100
        s['w_sub'] = 0.6
        s['w_part'] = 0.0
        s['w_kill'] = rng.choice([0.0, 0.01])
        s['w_start'] = 0.5
        s['max_down'] = 1
        s['w_upgrade'] = rng.choice([0.005, 0.02])
        s['w_setver'] = rng.choice([0.005, 0.02])
        s['w_compact'] = rng.choice([0.01, 0.04])
        cfg['version_callback'] = rng.random() < 0.4
        return cfg

    def make_app(self, cfg):
        return VerApp(cfg)

    def make_oracle(self, world, app):
        o = VerOracle(world, app)
        o._pre_enabled = 0
        for h in world.hosts:
            h.extra['code'] = 'new' if h.idx < world.cfg.get('n_new', 0) else 'old'
        return o

    def make_sched(self, world, rng, cfg):
        return VerSched(world, rng, cfg)

    def nontrivial(self, res):
        sm = res['summary']
        return sm.get('version_switches', 0) > 0 and sm.get('calls_before_switch', 0) > 0 and sm.get('calls_after_switch', 0) > 0 and sm.get('loads_after_switch', 0) > 0


SPEC = C17Spec()


def run(seed, tier, cfg=None, events=None, k=None):
    mode = cfg.get('mode') if cfg else ('program' if (k is None or k % 3 != 2) else 'cluster')
    if mode == 'program':
        return run_program(seed, cfg, events)
    return run_cluster(seed, SPEC, cfg=cfg, events=events, tier=tier)
