"""C04 Committed positions are majority-backed and never change; indices only advance."""
from .common import *
from . import c01

PROP = 'C04'
LEVEL = 'exploration'
INVARIANTS = ('commit_back', 'applied_back', 'not_majority', 'commit_conflict', 'committed_entry_changed', 'log_matching',
              'leader_commit_old_term', 'sent_entry_not_in_log')
RULE = ('one case = one seeded execution of a 2-5 voter cluster under the C01 schedule space (delays, fragmentation, resets, '
        'holds, partitions, compaction on or off as separate configurations, batch sizes down to 1 byte so that one '
        'append_entries carries fewer entries than the follower holds beyond prevLogIdx); the majority condition is evaluated '
        'at the very event at which a position is first reported committed, against the logs all voters hold at that event; '
        'distinct = distinct event/state log digest; non-trivial = at least 10 commit-index advances were checked for majority '
        'AND at least one fault fired before a commit AND more than one leadership was established')
COMPONENTS_REAL = REAL_CLUSTER
COMPONENTS_STUB = STUB_CLUSTER
ASSUMPTIONS = ASSUME_CLUSTER + ['no node loses its memory (no kills in C04 runs)',
                                'an entry compacted away by a voter counts as held by it (it was applied there, hence committed)']
BUDGET = dict(quick=dict(runs=640, wall=75, per_run_wall=60), thorough=dict(runs=60000, wall=900, per_run_wall=120))


class C04Spec(c01.C01Spec):
    prop = PROP
    invariants = INVARIANTS

    def draw(self, rng, tier='quick'):
        cfg = c01.C01Spec.draw(self, rng, tier)
        conf = cfg['conf']
        if rng.random() < 0.5:
            # compaction off: a snapshot-related alarm cannot hide the others
            conf['logCompactionMinEntries'] = 1 << 30
            conf['logCompactionMinTime'] = 1 << 30
            cfg['sched']['w_compact'] = 0.0
            cfg['compaction'] = False
        else:
            cfg['compaction'] = True
        if rng.random() < 0.6:
            conf['appendEntriesBatchSizeBytes'] = rng.choice([1, 7, 30, 64, 64, 200] if rng.random() < 0.1 else [30, 64, 64, 200])
        if rng.random() < 0.2 and not cfg['sched'].get('guide'):
            # read-only nodes acknowledge entries too: the majority that decides is one of VOTERS
            cfg['n_ro'] = rng.choice([1, 1, 2])
        wh, wr = rng.choice([0.02, 0.05, 0.1]), rng.choice([0.0, 0.03, 0.08])
        if not cfg['sched'].get('guide'):
            cfg['sched']['w_hold'], cfg['sched']['w_rst'] = wh, wr
            cfg['sched']['p_rst_after_follower_commit'] = rng.choice([0.0, 0.0, 0.02, 0.1])
        return cfg

    def nontrivial(self, res):
        sm = res['summary']
        return sm['majority_checks'] >= 10 and sm['commits_after_fault'] > 0 and sm['leader_changes'] >= 2


SPEC = C04Spec()
run = make_run(SPEC)
