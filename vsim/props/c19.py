"""C19 Thread-safe calls: each applied once, sync returns its own result (thread engine)."""
import random
import hashlib
import time as _time

from ..boot import CTX, M, install, priv, HarnessError
from ..world import World
from ..oracle import INV_PROP, log_of, norm
from ..workload import KVApp, KVModel, get_classes, payload
from .. import thr
from .common import REAL_CLUSTER, STUB_CLUSTER

PROP = 'C19'
ENGINE = 'thread'
LEVEL = 'exploration'
INVARIANTS = ('call_applied_twice', 'failed_call_applied', 'callback_twice', 'sync_wrong_result', 'sync_bad_exception', 'caller_blocked',
              'success_not_applied', 'deadlock', 'thread_exception', 'replicas_differ', 'callback_missing')
for _i in INVARIANTS:
    INV_PROP[_i] = PROP
RULE = ('one case = one seeded execution on the thread engine: 1-3 nodes with their REAL auto-tick threads, a network pump, and '
        'N = 2-6 caller threads x M = 1-8 calls on one or several nodes, mixing fire-and-forget, callback and synchronous calls '
        '(sync=True and replicated_sync, with time-outs), commandsQueueSize 0-3; real threads run one at a time (baton), pre-empted '
        'at sys.settrace line (or opcode) events inside pysyncobj with a drawn probability; distinct = distinct digest of the '
        'schedule (sequence of thread slices); non-trivial = at least 2 caller threads were pre-empted inside _applyCommand / '
        'FastQueue / the replicated wrapper while calls were in flight, and at least one call succeeded')
COMPONENTS_REAL = REAL_CLUSTER + ['SyncObj._autoTickThread (real thread)', 'pysyncobj.fast_queue.FastQueue', 'AsyncResult / replicated / replicated_sync wrappers']
COMPONENTS_STUB = STUB_CLUSTER[:-1] + ['threading.Thread/Event/Lock (baton-passing shims: real threads, one running at a time)',
                                       'PipeNotifier disabled (supported no-fcntl path)']
ASSUMPTIONS = ['pre-emption granularity: Python line (or opcode) events inside pysyncobj and the workload; C code sections are atomic (GIL)',
               'the network is benign in C19 runs (prompt delivery by a pump thread): the property is about caller threads vs the tick thread',
               'seeded sampling of interleavings']
BUDGET = dict(quick=dict(runs=320, wall=85, per_run_wall=60), thorough=dict(runs=20000, wall=900, per_run_wall=120))
STATE_MEASURE = 'number of distinct (thread, slice-count bucket) schedule prefixes is not tracked; distinct schedules are counted by digest'
MINIMISE = False


def draw(rng, tier):
    cfg = _draw(rng, tier)
    # a third of the runs: three nodes and one or two leader changes while calls are in flight (the leader is cut off
    # for a few election time-outs, then the network heals)
    if rng.random() < 0.35:
        cfg['n_nodes'] = 3
        cfg['disturb'] = rng.choice([1, 2])
    return cfg


def _draw(rng, tier):
    return dict(n_nodes=rng.choice([1, 2, 2, 3]), n_callers=rng.choice([2, 3, 4, 6]), n_calls=rng.choice([1, 3, 5, 8]),
                qsize=rng.choice([0, 1, 2, 3, 100000]), preempt_p=rng.choice([0.005, 0.02, 0.05, 0.15]),
                opcode=(tier == 'thorough' and rng.random() < 0.3), use_batch=rng.random() < 0.5,
                timeout=rng.choice([0.5, 2.0, 10.0]), wait_leader=rng.random() < 0.6, cap=1 << 16, cpu_cost=1e-4)


def execute(seed, cfg):
    t0 = _time.time()
    install()
    thr.install_thread_seams()
    cls = get_classes()['SimObj']
    so = M.so
    rng = random.Random(seed)
    n = cfg['n_nodes']
    w = World(seed, dict(n_voters=n, cap=cfg['cap'], cpu_cost=cfg['cpu_cost']), None)
    CTX.world = w
    sched = thr.Sched(w, rng, preempt_p=cfg['preempt_p'], opcode=cfg.get('opcode', False))
    thr.S.s = sched
    thr.SimThreadHandle.counter[0] = 0
    nodes = [None] * n
    applies = []          # (host, pos, tag)
    w.step_applies = applies
    calls = {}            # tag -> dict(mode, node, outcome...)
    viol = []

    def flag(inv, msg, detail=None):
        for v in viol:
            if v['inv'] == inv:
                return
        viol.append(dict(inv=inv, prop=PROP, msg=msg, evno=sched.steps, detail=detail))

    def setup():
        for i in range(n):
            w.cur = i
            h = w.hosts[i]
            h.inc = 1
            import random as _r
            h.rng = _r.Random(seed * 1000003 + i)
            conf = M.cf.SyncObjConf(autoTick=True, autoTickPeriod=0.05, commandsQueueSize=cfg['qsize'],
                                    appendEntriesUseBatch=cfg['use_batch'], commandsWaitLeader=cfg['wait_leader'],
                                    raftMinTimeout=0.4, raftMaxTimeout=1.4)
            peers = [x.addr for x in w.hosts if x.idx != i]
            nodes[i] = cls(h, h.addr, peers, conf)
            h.node = nodes[i]

    def pump():
        # benign network: connects resolve and bytes move promptly, in small random fragments sometimes
        net = w.net
        while not stop['v']:
            for cid in list(net.pending):
                c = net.pending.get(cid)
                if c is not None:
                    if c.shost is not None and w.blocked(c.chost, c.shost):
                        continue
                    net.resolve_connect(cid, 'ok' if (c.shost, c.port) in net.listeners else 'refuse')
            for pid in net.live_pipes():
                net.deliver(pid, rng.choice([0, 0, 0, 7, 64]))
            sched.yield_(wake_at=sched.now + 0.004)

    stop = {'v': False}
    tagc = [0]

    def caller(k):
        # wait for a leader to exist so that most calls succeed (calls before that are legal too)
        node = nodes[k % n]
        if rng.random() < 0.7:
            for _ in range(200):
                if node._getLeader() is not None:
                    break
                so.time.sleep(0.05)
        for m in range(cfg['n_calls']):
            tagc[0] += 1
            tag = tagc[0]
            mode = rng.choice(['sync', 'sync', 'cb', 'ff', 'sync_to'])
            rec = calls[tag] = dict(mode=mode, node=k % n, caller=k, t0=sched.now, cbs=[])
            try:
                if mode == 'ff':
                    node.append(tag)
                    rec['out'] = ('sent',)
                elif mode == 'cb':
                    def cb(res, err, rec=rec):
                        rec['cbs'].append((res, err))
                    node.append(tag, callback=cb)
                    rec['out'] = ('sent',)
                else:
                    to = cfg['timeout'] if mode == 'sync_to' else None
                    if to is None:
                        to = 30.0
                    r = node.append(tag, sync=True, timeout=to)
                    rec['out'] = ('ok', r)
                    rec['to'] = to
            except so.SyncObjException as e:
                rec['out'] = ('err', e.errorCode)
            except Exception as e:      # noqa
                rec['out'] = ('exc', repr(e))
            rec['t1'] = sched.now
            if rng.random() < 0.3:
                so.time.sleep(rng.choice([0.0, 0.01, 0.1]))

    def disturber():
        for _ in range(cfg.get('disturb', 0)):
            sched.yield_(wake_at=sched.now + rng.choice([0.3, 1.0, 2.0]))
            lead = [i for i, x in enumerate(nodes) if x is not None and x._isLeader()]
            if not lead or stop['v']:
                continue
            g = [0] * n
            g[lead[0]] = 1
            w.groups = g
            w.fault('partition')
            sched.yield_(wake_at=sched.now + rng.choice([1.5, 3.0]))
            w.groups = None
            w.fault('heal')

    def main():
        setup()
        if cfg.get('disturb'):
            sched.spawn(disturber, 'disturber', host=0, traced=False)
        cs = [sched.spawn((lambda k=k: caller(k)), 'caller%d' % k, host=k % n) for k in range(cfg['n_callers'])]
        # wait for the callers (bounded), then for quiescence, then stop the nodes
        deadline = sched.now + 120.0
        while any(c.alive for c in cs) and sched.now < deadline:
            sched.yield_(wake_at=sched.now + 0.5)
        rec_main['callers_alive'] = [c.name for c in cs if c.alive]
        for _ in range(40):
            sched.yield_(wake_at=sched.now + 0.25)
            tops = [x.raftLastApplied for x in nodes]
            cis = [x.raftCommitIndex for x in nodes]
            if len(set(tops)) == 1 and tops[0] == max(cis) and all(len(priv(priv(x, 'SyncObj', 'commandsQueue'), 'FastQueue', 'queue')) == 0 for x in nodes):
                break
        # callbacks of entries that a deposed leader had appended and that were cut off again fire (DISCARDED) when the log
        # reaches their index once more: a few more commands through the present leader flush them
        for _ in range(min(40, len(calls) + 5)):
            lead = [x for x in nodes if x._isLeader()]
            if not lead:
                sched.yield_(wake_at=sched.now + 0.5)
                continue
            tagc[0] += 1
            try:
                lead[0].append(1000000 + tagc[0], sync=True, timeout=5.0)
            except Exception:
                pass
        for _ in range(40):
            sched.yield_(wake_at=sched.now + 0.25)
            tops = [x.raftLastApplied for x in nodes]
            cis = [x.raftCommitIndex for x in nodes]
            if len(set(tops)) == 1 and tops[0] == max(cis) and all(len(priv(priv(x, 'SyncObj', 'commandsQueue'), 'FastQueue', 'queue')) == 0 for x in nodes):
                break
        rec_main['final'] = snapshot()
        for x in nodes:
            x.destroy()
        sched.yield_(wake_at=sched.now + 1.0)
        stop['v'] = True

    rec_main = {}

    def snapshot():
        out = []
        for x in nodes:
            log = log_of(x)
            out.append(dict(applied=x.raftLastApplied, commit=x.raftCommitIndex, log=[norm(e) for e in log[:]],
                            state=KVModel.observe(x)))
        return out

    sched.spawn(pump, 'pump', host=0, traced=False)
    mt = sched.spawn(main, 'main', host=0, traced=False)
    status = sched.loop(max_steps=600000)
    if mt.exc is not None:
        if isinstance(mt.exc, HarnessError):
            raise mt.exc
        flag('thread_exception', 'setup/main raised %r' % (mt.exc,))
    for t in sched.threads:
        if t.exc is not None and t.name.startswith('caller'):
            flag('thread_exception', 'caller thread %s died with %r' % (t.name, t.exc))
    # ---- oracle over the history --------------------------------------------------------------
    final = rec_main.get('final')
    if rec_main.get('callers_alive'):
        flag('caller_blocked', 'caller threads %r did not finish within 120 virtual seconds (status %s)' % (rec_main['callers_alive'], status),
             dict(deadlocked=sched.deadlocked))
    if final is not None:
        app = KVApp({})
        app.idmap = dict((fid, m.__name__.rsplit('_v', 1)[0]) for fid, m in nodes[0]._idToMethod.items())
        # the common sequence = the longest committed log
        best = max(final, key=lambda f: f['commit'])
        G = {}
        for e in best['log']:
            if e[1] <= best['commit']:
                G[e[1]] = e
        tagpos = {}
        st = KVModel.INIT
        results = {}
        for p in sorted(G):
            d = app.decode(G[p][0])
            if d[0] == 'regular':
                tag = d[2][0]
                if tag in tagpos:
                    flag('call_applied_twice', 'call %d is committed at positions %d and %d' % (tag, tagpos[tag], p))
                tagpos[tag] = p
                st, res, _ = KVModel.step(st, d[1], d[2])
                results[tag] = res
        # executions per node
        per = {}
        for (host, inc, pos, tag, extra) in applies:
            per[(host, tag)] = per.get((host, tag), 0) + 1
        for (host, tag), c in per.items():
            if c > 1:
                flag('call_applied_twice', 'node %d executed call %d %d times' % (host, tag, c))
        FR = M.cf.FAIL_REASON
        never = (FR.QUEUE_FULL, FR.MISSING_LEADER, FR.NOT_LEADER, FR.REQUEST_DENIED, FR.DISCARDED)
        nsucc = 0
        for tag, rec in sorted(calls.items()):
            out = rec.get('out')
            executed = any(h == rec['node'] or True for (h, t) in per if t == tag) and any(t == tag for (h, t) in per)
            if len(rec['cbs']) > 1:
                flag('callback_twice', 'the callback of call %d fired %d times: %r' % (tag, len(rec['cbs']), rec['cbs']))
            if rec['mode'] == 'cb' and not rec['cbs'] and out == ('sent',) and status != 'steps' and not rec_main.get('callers_alive'):
                # the run reached quiescence on a network that loses nothing (partitions of the disturber only delay):
                # every asynchronous call has been applied or reported failed by now, and its callback fired once
                flag('callback_missing', 'the callback of asynchronous call %d (made on node %d, %s) never fired although the cluster reached quiescence' % (
                    tag, rec['node'], 'committed at %d' % tagpos[tag] if tag in tagpos else 'not committed'))
            for res, err in rec['cbs']:
                if err == FR.SUCCESS:
                    nsucc += 1
                    if tag not in tagpos:
                        flag('success_not_applied', 'call %d got a SUCCESS callback but is not in the committed sequence' % tag)
                    elif tuple(res) != tuple(results[tag]):
                        flag('sync_wrong_result', 'callback of call %d got %r, its own command returns %r' % (tag, res, results[tag]))
                elif err in never and (tag in tagpos or executed):
                    flag('failed_call_applied', 'call %d was reported failed (%r) but was applied' % (tag, err))
            if out is None:
                continue
            if out[0] == 'ok':
                nsucc += 1
                if tag not in tagpos:
                    flag('success_not_applied', 'synchronous call %d returned but is not in the committed sequence' % tag)
                elif tuple(out[1]) != tuple(results[tag]):
                    flag('sync_wrong_result', 'synchronous call %d returned %r, its own command returns %r' % (tag, out[1], results[tag]))
            elif out[0] == 'err':
                code = out[1]
                if code == 'Timeout':
                    if rec.get('t1', 0) - rec['t0'] > (cfg['timeout'] if rec['mode'] == 'sync_to' else 30.0) + 5.0:
                        flag('caller_blocked', 'call %d timed out after %.1f virtual seconds' % (tag, rec['t1'] - rec['t0']))
                elif code in never:
                    if tag in tagpos or executed:
                        flag('failed_call_applied', 'call %d raised fail reason %r but was applied' % (tag, code))
                elif code not in (FR.LEADER_CHANGED,):
                    flag('sync_bad_exception', 'call %d raised SyncObjException(%r)' % (tag, code))
            elif out[0] == 'exc':
                flag('sync_bad_exception', 'call %d raised %s' % (tag, out[1]))
        sts = set(repr((f['applied'], f['state'])) for f in final)
        if len(sts) != 1 and status != 'steps':
            flag('replicas_differ', 'replicas differ after quiescence: %r' % (sorted(sts)[:3],))
    else:
        nsucc = 0
        if status == 'steps':
            pass
        elif not viol:
            flag('deadlock', 'the run ended (%s) before the main thread finished; parked threads: %r' % (status, sched.deadlocked))
    dig = sched.digest.hexdigest()
    res = dict(seed=seed, cfg=cfg, events=[], n_events=sched.steps, sim_time=w.T, digest=dig, violations=viol, cross=[],
               probes=dict(preemptions=sched.preemptions, preempted_inside_call_path=sched.overlaps, thread_slices=sched.steps,
                           calls=len(calls), calls_succeeded=nsucc),
               faults=dict(w.faults), net=dict(w.net.stats), summary=dict(calls=len(calls), succeeded=nsucc, threads=len(sched.threads)),
               n_tick_exc=0, tick_exc=[], states=set(), aborted=('steps' if status == 'steps' else None), wall=_time.time() - t0,
               nontrivial=(sched.overlaps >= 2 and nsucc > 0))
    thr.S.s = None
    CTX.world = None
    thr.uninstall_thread_seams()
    return res


def run(seed, tier, cfg=None, events=None):
    rng = random.Random(seed)
    if cfg is None:
        cfg = draw(rng, tier)
    return execute(seed, cfg)
