"""C13 TCP framing: each message once, in order, uncorrupted; invalid frames disconnect.

Two real TcpConnection objects (one created by the real TcpServer on accept) over
SimNet and SimPoller; no SyncObj.  The oracle is a reference receiver written
independently here, fed with the very byte stream that crossed the pipe.
"""
import random
import struct
import zlib
import pickle as _pickle
import time as _time

from ..boot import CTX, M, install, priv, HarnessError
from ..world import World
from ..oracle import INV_PROP
from .common import STUB_CLUSTER

PROP = 'C13'
ENGINE = 'framing'
LEVEL = 'exploration'
INVARIANTS = ('delivery_mismatch', 'stalled_tail', 'invalid_frame_accepted', 'poll_exception', 'lost_message',
              'spurious_disconnect', 'redial_failed', 'stale_event_dispatched', 'lost_event', 'graceful_tail_lost')
for _i in INVARIANTS:
    INV_PROP[_i] = PROP
RULE = ('one case = one seeded sequence of send / poll / deliver(n bytes) / corrupt operations on a client and an accepted '
        'server TcpConnection with a drawn socket capacity (1 byte .. 64 KiB) and message sizes 0 .. several times the '
        'capacity, in both directions; distinct = distinct digest of the executed op list and outcomes; non-trivial = at '
        'least one partial send (socket took fewer bytes than offered) or one read that ended inside a frame occurred; one case '
        'in eight is a poller batch: the repository\'s PollPoller or SelectPoller over 2-5 sockets whose callbacks close, replace, '
        'unsubscribe or re-subscribe OTHER descriptors while one batch of events is handled, with descriptor numbers re-used')
COMPONENTS_REAL = ['pysyncobj.tcp_connection.TcpConnection', 'pysyncobj.tcp_server.TcpServer', 'pysyncobj.pickle',
                   'pysyncobj.poller.PollPoller / SelectPoller (poller-batch cases: one case in eight)']
COMPONENTS_STUB = ['socket module (SimNet byte pipes)', 'poller of the framing cases (SimPoller)', 'select module of the poller-batch cases (simulated select()/poll(), descriptor re-use)',
                   'monotonic clock (virtual)']
ASSUMPTIONS = ['SimNet follows TCP: FIFO byte stream per direction, no loss/duplication except injected corruption',
               'None is never sent as a message (the parse loop uses None as "no message"; the protocol never sends it)',
               'no encryption (cryptography is not installed)']
BUDGET = dict(quick=dict(runs=4000, wall=60, per_run_wall=30), thorough=dict(runs=400000, wall=900, per_run_wall=60))
STATE_MEASURE = 'hash of (write-buffer bucket, read-buffer bucket, pipe fill buckets, connection states) after every op'


_SAFE = bytes(b for b in range(256) if b not in (0x70, 0x72))


def encode(msg):
    z = zlib.compress(_pickle.dumps(msg, 2), 3)
    return struct.pack('i', len(z)) + z


class RefReceiver(object):
    """Reference: 4-byte signed length; negative => invalid; incomplete => wait;
    payload must be exactly one complete zlib stream holding one pickle."""

    def __init__(self):
        self.buf = bytearray()
        self.out = []
        self.invalid = False
        self.strict_invalid = False   # invalid in a way every conforming receiver must reject

    def feed(self, data):
        if self.invalid:
            return
        self.buf += data
        while True:
            if len(self.buf) < 4:
                return
            l = struct.unpack('i', bytes(self.buf[:4]))[0]
            if l < 0:
                self.invalid = True
                self.strict_invalid = True
                return
            if len(self.buf) - 4 < l:
                return
            data = bytes(self.buf[4:4 + l])
            try:
                d = zlib.decompressobj()
                raw = d.decompress(data)
                if not d.eof:
                    raise ValueError('incomplete stream')
                msg = _pickle.loads(raw)
                if d.unused_data:
                    raise ValueError('bytes after the end of the compressed stream')
            except Exception:
                self.invalid = True
                self.strict_invalid = True
                return
            self.out.append(msg)
            del self.buf[:4 + l]


def make_msg(rng, size, kind):
    if kind == 'bytes':
        return random.Random(rng.getrandbits(30)).randbytes(size)
    if kind == 'zeros':
        return b'\0' * size
    if kind == 'str':
        return 'x' * size
    if kind == 'dict':
        return {'type': 'append_entries', 'term': rng.randrange(100), 'entries': [(b'c' * (size // 4 + 1), i, 1) for i in range(3)]}
    if kind == 'list':
        return list(range(size % 97))
    if kind == 'int':
        return size
    if kind == 'empty':
        return rng.choice([b'', '', (), [], {}, 0, False])
    return size


class Side(object):
    def __init__(self, name):
        self.name = name
        self.conn = None
        self.poller = None
        self.got = []
        self.disconnected = 0
        self.sent = []            # messages handed to send()
        self.sent_bytes = bytearray()


class Frame(object):
    """The two endpoints plus the op interpreter."""

    def __init__(self, seed, cfg):
        install()
        self.cfg = cfg
        self.w = World(seed, dict(n_voters=2, cap=cfg['cap'], cpu_cost=1e-5, short_write=cfg.get('short_write', False)), None)
        CTX.world = self.w
        w = self.w
        self.net = w.net
        from ..net import SimPoller
        self.A = Side('A')
        self.B = Side('B')
        self.A.poller = SimPoller(w.net, 0)
        self.B.poller = SimPoller(w.net, 1)
        self.violations = []
        self.stats = {}
        self.ref = {0: RefReceiver(), 1: RefReceiver()}   # pipe direction -> reference for the reader
        self.wire = {0: bytearray(), 1: bytearray()}      # bytes that crossed the pipe into the reader's buffer
        self.corrupted = {0: False, 1: False}
        self.bounds = {0: set([0]), 1: set([0])}
        self.splits = 0
        TcpConnection = M.tc.TcpConnection
        w.cur = 1

        def on_new(conn):
            # every accepted connection delivers into a list of its own: what an older connection of the same
            # dialler still delivers belongs to that older connection's sequence
            self.B.conn = conn
            self.B.got = lst = []
            self.accepted += 1
            conn.setOnMessageReceivedCallback(lst.append)
            conn.setOnDisconnectedCallback(lambda: self._disc(self.B))
        self.accepted = 0
        self.epoch = 0
        self.server = M.ts.TcpServer(self.B.poller, '10.0.0.2', 4002, on_new, sendBufferSize=cfg['cap'], recvBufferSize=cfg.get('recvbuf', 1 << 13),
                                     connectionTimeout=cfg.get('timeout', 1e9))
        self.server.bind()
        w.cur = 0
        self.connected = []
        def on_connected():
            self.connected.append(1)
            # what TCPTransport does at this moment - send the first message(s) from inside the connected callback, while
            # the connection object is still in its CONNECTING state; here also messages bigger than the socket buffer
            for j in range(cfg.get('send_on_connect', 0)):
                r = random.Random(seed * 131 + len(self.connected) * 17 + j)
                msg = make_msg(r, r.choice([3, cfg['cap'] + 10, 3 * cfg['cap'] + 1]), 'bytes')
                self.A.sent.append(msg)
                self.A.sent_bytes += encode(msg)
                self.bounds[0].add(len(self.A.sent_bytes))
                self.w.cur = 0
                self.A.conn.send(msg)
        self.A.conn = TcpConnection(self.A.poller, onMessageReceived=lambda m: self.A.got.append(m),
                                    onConnected=on_connected,
                                    onDisconnected=lambda: self._disc(self.A), timeout=cfg.get('timeout', 1e9),
                                    sendBufferSize=cfg['cap'], recvBufferSize=cfg.get('recvbuf', 1 << 13))
        self.A.conn.connect('10.0.0.2', 4002)
        cid = list(self.net.pending)[0]
        self.net.resolve_connect(cid, 'ok')
        self.cid = cid
        self.poll(0)
        self.poll(1)
        self.poll(0)
        if self.B.conn is None or not self.connected:
            raise HarnessError('C13 harness: connection setup failed')
        c = self.net.conns[cid]
        self.pipes = {0: c.p_cs, 1: c.p_sc}

    def _disc(self, side):
        side.disconnected += 1

    def flag(self, inv, msg, opno):
        for v in self.violations:
            if v['inv'] == inv:
                return
        self.violations.append(dict(inv=inv, prop=PROP, msg=msg, evno=opno, detail=None))

    def stat(self, k, n=1):
        self.stats[k] = self.stats.get(k, 0) + n

    def side(self, i):
        return self.A if i == 0 else self.B

    def poll(self, i):
        self.w.cur = i
        s = self.side(i)
        s.poller.poll(0)

    def send(self, i, msg):
        self.w.cur = i
        s = self.side(i)
        if s.conn.state != M.tc.CONNECTION_STATE.CONNECTED:
            return 'notconn'
        s.sent.append(msg)
        s.sent_bytes += encode(msg)
        self.bounds[i].add(len(s.sent_bytes))
        s.conn.send(msg)
        return 'ok'

    def deliver(self, d, n):
        p = self.pipes[d]
        before = len(p.rcv)
        out = self.net.deliver(p.pid, n)
        moved = len(p.rcv) - before
        if moved > 0:
            data = bytes(p.rcv[before:])
            self.wire[d] += data
            self.ref[d].feed(data)
            if p.delivered not in self.bounds[d]:
                self.splits += 1      # this read ends strictly inside a frame
        return out

    def reconnect(self, how, opno):
        """The dialler's connection ends in the middle of whatever is going on (its own disconnect() or a reset it
        notices) and the SAME TcpConnection object dials again, as TCPTransport does.  A new message sequence starts
        on the new connection; messages of the old one that were not delivered are lost with it (allowed), the new
        sequence must arrive complete and intact."""
        CS = M.tc.CONNECTION_STATE
        w = self.w
        self.check(opno)
        if how == 'reset':
            self.net.inject_reset(self.cid, 0)
            for _ in range(3):
                self.poll(0)
                if self.A.conn.state == CS.DISCONNECTED:
                    break
        w.cur = 0
        graceful = (how == 'local' and self.A.conn.state == CS.CONNECTED and self.A.conn.getSendBufferSize() == 0 and
                    not self.corrupted[0] and not self.corrupted[1] and self.B.conn.state == CS.CONNECTED and
                    not self.B.sent)      # (nothing ever travelled the other way: the close is a FIN, not a reset)
        if self.A.conn.state != CS.DISCONNECTED:
            self.A.conn.disconnect()
        # the old connection's remains reach the acceptor (or not) before the new one is dialled
        if how != 'late_fin':
            for d in (0, 1):
                self.net.deliver(self.pipes[d].pid, 0)
            self.poll(1)
            self.poll(1)
            if graceful and len(self.B.got) != len(self.A.sent):
                # the dialler had handed every frame completely to its socket before it closed: TCP delivers those
                # bytes ahead of the FIN, so the acceptor has the whole sequence - it must not drop what it read
                # together with the end-of-stream
                self.flag('graceful_tail_lost', 'the sender closed the connection after all of its %d messages had been handed to the socket completely; the receiver read the rest of the stream together with the FIN and delivered only %d of them' % (
                    len(self.A.sent), len(self.B.got)), opno)
        self.epoch += 1
        self.stat('reconnect_' + how)
        for side in (self.A, self.B):
            side.got = []
            side.sent = []
            side.sent_bytes = bytearray()
        self.ref = {0: RefReceiver(), 1: RefReceiver()}
        self.wire = {0: bytearray(), 1: bytearray()}
        self.corrupted = {0: False, 1: False}
        self.bounds = {0: set([0]), 1: set([0])}
        n0 = len(self.connected)
        acc0 = self.accepted
        w.cur = 0
        self.A.conn.connect('10.0.0.2', 4002)
        cids = [c for c in self.net.pending]
        if not cids:
            raise HarnessError('C13 harness: reconnect did not dial')
        self.cid = cids[-1]
        self.net.resolve_connect(self.cid, 'ok')
        self.poll(0)
        self.poll(1)
        self.poll(0)
        if self.accepted == acc0 or len(self.connected) == n0:
            self.flag('redial_failed', 'the dialler\'s TcpConnection object did not get a working connection on its second connect() (accepted=%s connected callbacks=%d)' % (
                self.accepted > acc0, len(self.connected) - n0), opno)
            return 'failed'
        c = self.net.conns[self.cid]
        self.pipes = {0: c.p_cs, 1: c.p_sc}
        return 'ok'

    def corrupt(self, d, kind, frac, val):
        """Corrupt bytes that are still in flight in direction d (not yet seen by the reader)."""
        p = self.pipes[d]
        s = self.side(d)      # writer of direction d is side d (0: A->B, 1: B->A)
        # frame boundaries of the stream written so far
        stream = s.sent_bytes
        base = p.delivered                       # absolute offset of inflight[0]
        if not p.inflight:
            return 'noinflight'
        # find frames fully or partly in flight
        off = 0
        frames = []
        while off + 4 <= len(stream):
            l = struct.unpack('i', bytes(stream[off:off + 4]))[0]
            frames.append((off, l))
            off += 4 + l
        cands = [(o, l) for (o, l) in frames if o >= base and o + 4 <= base + len(p.inflight)]
        if not cands:
            return 'noframe'
        o, l = cands[int(frac * len(cands)) % len(cands)]
        rel = o - base
        if kind == 'len':
            newl = val
            p.inflight[rel:rel + 4] = struct.pack('i', newl)
        elif kind == 'neglen':
            p.inflight[rel:rel + 4] = struct.pack('i', -abs(val) - 1)
        elif kind == 'shorter':
            if l < 1:
                return 'noframe'
            p.inflight[rel:rel + 4] = struct.pack('i', max(0, l - 1 - abs(val) % l))
        elif kind == 'longer':
            p.inflight[rel:rel + 4] = struct.pack('i', l + 1 + abs(val) % 50)
        elif kind == 'flip':
            if l <= 0 or rel + 4 + l > len(p.inflight):
                return 'noframe'
            k = rel + 4 + abs(val) % l
            p.inflight[k] ^= 0x5A
        elif kind == 'badpickle':
            # a frame of the right length holding exactly one complete zlib stream whose content is not a loadable
            # pickle (what a foreign or version-skewed peer sends): unknown opcode, pop from an empty stack, unknown
            # module / attribute, call of a non-callable, truncated pickle, random bytes
            if l < 16 or rel + 4 + l > len(p.inflight):
                return 'noframe'
            r = random.Random(val)
            heads = [b'\xff', b'0', b'cno_such_module_xyz\nx\n.', b'cos\nno_such_attr_xyz\n.', b'(I1\nI2\nR.', b'\x80\x02}q\x00(', b'', b'I1\n0a.']
            blob = None
            for n in range(l - 9, max(0, l - 60), -1):
                for _ in range(3):
                    h = r.choice(heads)
                    # (no PUT / LONG_BINPUT opcodes in the filler: a random 4-byte memo index makes pickle.loads allocate
                    # gigabytes before it fails - in the reference receiver as in the library; not the subject here)
                    g = h + bytes(_SAFE[r.randrange(len(_SAFE))] for _ in range(max(0, n - len(h))))
                    c = zlib.compress(g, 3)
                    if len(c) == l:
                        blob = c
                        break
                if blob is not None:
                    break
            if blob is None:
                return 'noframe'
            p.inflight[rel + 4:rel + 4 + l] = blob
        self.corrupted[d] = True
        self.stat('corrupt_' + kind)
        return 'ok'

    def wbuf(self, i):
        return self.side(i).conn.getSendBufferSize()

    def rbuf(self, i):
        return len(priv(self.side(i).conn, 'TcpConnection', 'readBuffer'))

    def abstract(self):
        def b(n):
            return 0 if n == 0 else (1 if n < 5 else (2 if n < 100 else 3))
        return hash((b(self.wbuf(0)), b(self.wbuf(1)), b(self.rbuf(0)), b(self.rbuf(1)),
                     b(len(self.pipes[0].inflight)), b(len(self.pipes[0].rcv)), b(len(self.pipes[1].inflight)),
                     b(len(self.pipes[1].rcv)), self.A.conn.state, self.B.conn.state))

    # -- oracle ------------------------------------------------------------------------
    def check(self, opno):
        for d in (0, 1):
            reader = self.side(1 - d) if d == 0 else self.side(0)
            reader = self.B if d == 0 else self.A
            writer = self.A if d == 0 else self.B
            ref = self.ref[d]
            got = reader.got
            exp = ref.out
            # safety: delivered == prefix of the reference's sequence (which, without corruption,
            # is a prefix of the sent sequence)
            n = len(got)
            if n > len(exp) or any(not _eq(got[i], exp[i]) for i in range(n)):
                if ref.strict_invalid and n > len(exp) and all(_eq(got[i], exp[i]) for i in range(len(exp))):
                    self.flag('invalid_frame_accepted', 'direction %d: frame %d of the byte stream is invalid (negative length, or payload that does not decode) but the reader delivered a message for it instead of disconnecting' % (d, len(exp)), opno)
                    continue
                self.flag('delivery_mismatch', 'direction %d: delivered %d messages, reference %d; first difference at %d' % (
                    d, n, len(exp), _first_diff(got, exp)), opno)
            if not self.corrupted[d]:
                if n > len(writer.sent) or any(not _eq(got[i], writer.sent[i]) for i in range(n)):
                    self.flag('delivery_mismatch', 'direction %d: delivered sequence is not a prefix of the sent sequence' % d, opno)

    def final(self, opno, drained_rounds):
        """Completion after the network kept draining and both sides kept polling."""
        CS = M.tc.CONNECTION_STATE
        for d in (0, 1):
            reader = self.B if d == 0 else self.A
            writer = self.A if d == 0 else self.B
            ref = self.ref[d]
            if self.corrupted[d]:
                if ref.strict_invalid:
                    if reader.conn.state != CS.DISCONNECTED:
                        self.flag('invalid_frame_accepted', 'direction %d: the byte stream contains an invalid frame (after %d valid ones) but the reader did not disconnect; it delivered %d messages' % (d, len(ref.out), len(reader.got)), opno)
                    elif len(reader.got) > len(ref.out):
                        self.flag('invalid_frame_accepted', 'direction %d: reader delivered %d messages although only %d valid frames precede the invalid one' % (d, len(reader.got), len(ref.out)), opno)
                continue
            if self.corrupted[1 - d]:
                continue      # the other direction's corruption may legitimately have closed the connection
            if reader.conn.state == CS.DISCONNECTED or writer.conn.state == CS.DISCONNECTED:
                if not self.cfg.get('allow_disconnect'):
                    self.flag('spurious_disconnect', 'direction %d: connection dropped without any fault' % d, opno)
                continue
            if len(reader.got) != len(writer.sent):
                wb = writer.conn.getSendBufferSize()
                if wb > 0:
                    self.flag('stalled_tail', 'direction %d: %d of %d messages delivered after %d drain rounds; %d bytes still sit in the sender\'s write buffer although the socket is writable' % (
                        d, len(reader.got), len(writer.sent), drained_rounds, wb), opno)
                else:
                    self.flag('lost_message', 'direction %d: %d of %d messages delivered after %d drain rounds, nothing left in flight' % (
                        d, len(reader.got), len(writer.sent), drained_rounds), opno)


def _eq(a, b):
    return type(a) == type(b) and a == b


def _first_diff(a, b):
    for i in range(min(len(a), len(b))):
        if not _eq(a[i], b[i]):
            return i
    return min(len(a), len(b))


def draw(rng, tier):
    cap = rng.choice([1, 2, 3, 5, 16, 64, 100, 300, 1000, 8192, 65536])
    cfg = dict(cap=cap, short_write=rng.random() < 0.3,
               recvbuf=rng.choice([1, 3, 64, 8192, 65536]),
               corrupt=rng.random() < 0.3,
               nops=rng.choice([20, 60, 150]),
               maxsize=rng.choice([0, 10, 300, 3000, 20000] if cap < 1000 else [10, 3000, 20000, 200000]),
               bidir=rng.random() < 0.5)
    # the dialler's TcpConnection object is disconnected in the middle of the traffic and dials again (0-2 times)
    cfg['reconnects'] = rng.choice([0, 0, 1, 2])
    # messages sent from inside the connected callback (0-2, some bigger than the socket buffer)
    cfg['send_on_connect'] = rng.choice([0, 0, 1, 2])
    return cfg


def gen_ops(rng, cfg):
    """The op list is generated up-front from the PRNG only (no feedback), so it is a pure input."""
    ops = []
    kinds = ['bytes', 'zeros', 'str', 'dict', 'list', 'int', 'empty']
    ncorrupt = 0
    nrec = 0
    nburst = 0
    for _ in range(cfg['nops']):
        r = rng.random()
        if r < 0.012 and nburst < 2 and cfg['cap'] >= 64:
            # a burst of small messages that reach the receiver in one read (hundreds of complete frames in the buffer)
            nburst += 1
            d = rng.randrange(2) if cfg['bidir'] else 0
            ops.append(['burst', d, rng.choice([65, 100, 129, 300]), rng.getrandbits(30)])
            ops.append(['dlv', d, 0])
            ops.append(['poll', 1 - d])
        elif r < 0.3:
            d = rng.randrange(2) if cfg['bidir'] else 0
            size = rng.choice([0, 1, rng.randrange(0, 50), rng.randrange(0, cfg['maxsize'] + 1)])
            ops.append(['send', d, rng.choice(kinds), size, rng.getrandbits(30)])
        elif r < 0.55:
            ops.append(['poll', rng.randrange(2)])
        elif r < 0.95:
            ops.append(['dlv', rng.randrange(2), rng.choice([0, 0, 1, 1, 2, 3, 4, 5, 7, 64, 1000])])
        elif cfg.get('reconnects') and nrec < cfg['reconnects'] and r < 0.965:
            nrec += 1
            ops.append(['reconn', rng.choice(['local', 'local', 'reset', 'late_fin'])])
        elif cfg['corrupt'] and ncorrupt < 2:
            ncorrupt += 1
            ops.append(['corrupt', rng.randrange(2) if cfg['bidir'] else 0, rng.choice(['neglen', 'shorter', 'longer', 'flip', 'flip', 'badpickle', 'badpickle']),
                        rng.random(), rng.randrange(1000)])
        else:
            ops.append(['poll', rng.randrange(2)])
    return ops


def execute(seed, cfg, ops):
    import hashlib
    t0 = _time.time()
    F = Frame(seed, cfg)
    dig = hashlib.sha256()
    states = set()
    opno = 0
    exc = None
    for op in ops:
        opno += 1
        k = op[0]
        out = None
        try:
            if k == 'send':
                r = random.Random(op[4])
                out = F.send(op[1], make_msg(r, op[3], op[2]))
            elif k == 'poll':
                F.poll(op[1])
            elif k == 'burst':
                r = random.Random(op[3])
                for i in range(op[2]):
                    out = F.send(op[1], make_msg(r, i % 7, r.choice(['int', 'bytes', 'empty', 'str'])))
            elif k == 'dlv':
                out = F.deliver(op[1], op[2])
            elif k == 'corrupt':
                out = F.corrupt(op[1], op[2], op[3], op[4])
            elif k == 'reconn':
                out = F.reconnect(op[1], opno)
        except HarnessError:
            raise
        except Exception as e:
            F.flag('poll_exception', 'op %r raised %r' % (op[:3], e), opno)
            exc = e
            break
        F.check(opno)
        dig.update(repr((op[:4], out, len(F.A.got), len(F.B.got), F.wbuf(0), F.wbuf(1))).encode())
        states.add(F.abstract())
        if F.violations:
            break
    rounds = 0
    if not F.violations:
        # completion: the network keeps draining, both sides keep polling
        need = (len(F.A.sent_bytes) + len(F.B.sent_bytes)) // max(1, cfg['cap']) * 2 + 50
        need = min(need, 200000)
        try:
            quiet = 0
            while rounds < need:
                rounds += 1
                before = (len(F.A.got), len(F.B.got), F.wbuf(0), F.wbuf(1), len(F.wire[0]), len(F.wire[1]))
                F.deliver(0, 0)
                F.deliver(1, 0)
                F.poll(0)
                F.poll(1)
                F.check(opno + rounds)
                after = (len(F.A.got), len(F.B.got), F.wbuf(0), F.wbuf(1), len(F.wire[0]), len(F.wire[1]))
                if after == before:
                    quiet += 1
                    if quiet >= 3:
                        break
                else:
                    quiet = 0
                if F.violations:
                    break
        except HarnessError:
            raise
        except Exception as e:
            F.flag('poll_exception', 'drain phase raised %r' % (e,), opno + rounds)
        if not F.violations:
            F.final(opno + rounds, rounds)
    st = F.net.stats
    res = dict(seed=seed, cfg=cfg, events=ops, n_events=opno, sim_time=F.w.T, digest=dig.hexdigest(),
               violations=F.violations, cross=[], probes=dict(F.stats), faults=dict((k, v) for k, v in F.stats.items() if k.startswith('corrupt')),
               net=dict(st), summary=dict(sent=len(F.A.sent) + len(F.B.sent), delivered=len(F.A.got) + len(F.B.got),
                                           bytes=len(F.wire[0]) + len(F.wire[1]), drain_rounds=rounds),
               n_tick_exc=0, tick_exc=[], states=states, aborted=None, wall=_time.time() - t0)
    split = _split_reads(F)
    res['probes']['reads_inside_frame'] = split
    res['nontrivial'] = bool(st.get('partial_send', 0) or split)
    CTX.world = None
    return res


def _split_reads(F):
    return F.splits


# ---------------------------------------------------------------------------------------------
# poller batches: the repository's PollPoller / SelectPoller with callbacks that close, replace or
# re-subscribe OTHER descriptors while one batch of events is handled (what TcpConnection and the
# transport do: a handshake replaces a stale connection, a removed node is dropped, a dialler
# dials again from its disconnect callback), with the kernel re-using descriptor numbers
# ---------------------------------------------------------------------------------------------
def draw_batch(rng, tier):
    return dict(kind='pollerbatch', poller=rng.choice(['poll', 'select']), fd_reuse=rng.random() < 0.6,
                n=rng.choice([2, 3, 4, 5]), shuffle=rng.random() < 0.5, nops=rng.choice([8, 20, 40]), cap=1 << 12)


def gen_batch_ops(rng, cfg):
    ops = []
    n = cfg['n']
    for _ in range(cfg['nops']):
        r = rng.random()
        if r < 0.3:
            ops.append(['feed', rng.randrange(n)])
        elif r < 0.36:
            ops.append(['rst', rng.randrange(n)])
        elif r < 0.7:
            ops.append(['script', rng.randrange(n), rng.choice(['close', 'close', 'unsub', 'replace', 'replace', 'resub', 'none']), rng.randrange(n)])
        else:
            ops.append(['poll'])
    return ops


def execute_batch(seed, cfg, ops):
    import hashlib
    t0 = _time.time()
    install()
    from ..net import SimSocket
    w = World(seed, dict(n_voters=2, cap=cfg['cap'], cpu_cost=1e-5, poller=cfg['poller'], fd_reuse=cfg['fd_reuse'],
                         poll_shuffle=cfg['shuffle']), None)
    CTX.world = w
    net = w.net
    w.cur = 0
    PE = M.pl.POLL_EVENT_TYPE
    poller = M.pl.PollPoller() if cfg['poller'] == 'poll' else M.pl.SelectPoller()
    lst = SimSocket(net, 1)
    lst.bind(('10.0.0.2', 4002))
    lst.listen(5)
    n = cfg['n']
    slots = [None] * n            # slot -> dict(sock, fd)
    subs = {}                     # fd -> (slot, sock): the harness' own record of who is subscribed under a number
    script = {}
    viol = []
    stats = {}
    calls = []
    state = dict(batch_socks={}, polling=False, opno=0)

    def flag(inv, msg):
        if not any(v['inv'] == inv for v in viol):
            viol.append(dict(inv=inv, prop=PROP, msg=msg, evno=state['opno'], detail=None))

    def open_slot(i):
        s = SimSocket(net, 0)
        try:
            s.connect(('10.0.0.2', 4002))
        except BlockingIOError:
            pass
        net.resolve_connect(s.conn.cid, 'ok')
        slots[i] = dict(sock=s, fd=s.fileno())
        subscribe(i)

    def subscribe(i):
        sl = slots[i]
        if sl is None:
            return
        fd = sl['fd']
        subs[fd] = (i, sl['sock'])
        poller.subscribe(fd, make_cb(i, sl['sock']), PE.READ | PE.ERROR)

    def unsubscribe(i):
        sl = slots[i]
        if sl is None:
            return
        if subs.get(sl['fd'], (None, None))[1] is sl['sock']:
            del subs[sl['fd']]
            poller.unsubscribe(sl['fd'])

    def close_slot(i):
        # the order of TcpConnection.disconnect(): close the socket, then unsubscribe its number
        sl = slots[i]
        if sl is None:
            return
        sl['sock'].close()
        unsubscribe(i)
        slots[i] = None

    def make_cb(i, sock):
        def cb(descr, event):
            calls.append((i, descr, event))
            cur = subs.get(descr)
            seen = state['batch_socks'].get(descr)
            if cur is None:
                flag('stale_event_dispatched', 'the callback of descriptor %d (slot %d) was called although the descriptor had been unsubscribed earlier in the same batch of events' % (descr, i))
            elif cur[1] is not sock:
                flag('stale_event_dispatched', 'an event of descriptor %d reached the callback of an older subscription (slot %d) after the number was subscribed again for another socket' % (descr, i))
            elif seen is not None and seen is not sock:
                flag('stale_event_dispatched', 'events %d computed for a socket that was closed meanwhile were handed to the new socket that got its descriptor number %d (slot %d)' % (event, descr, i))
            a = script.pop(i, None)
            if a is not None:
                act, j = a
                stats['act_' + act] = stats.get('act_' + act, 0) + 1
                if act == 'close':
                    close_slot(j)
                elif act == 'unsub':
                    unsubscribe(j)
                elif act == 'resub':
                    unsubscribe(j)
                    subscribe(j)
                elif act == 'replace':
                    close_slot(j)
                    open_slot(j)
        return cb

    for i in range(n):
        open_slot(i)
    dig = hashlib.sha256()
    states = set()

    def do_poll():
        # which socket is behind each subscribed number at the moment the events are computed
        state['batch_socks'] = dict((fd, net.socks.get(fd)) for fd in subs)
        ready = [fd for fd, (i, sk) in subs.items() if sk.ready() & (R | E)]
        before = len(calls)
        try:
            poller.poll(0)
        except HarnessError:
            raise
        except Exception as e:
            flag('poll_exception', 'poll() raised %r while callbacks of the batch closed / replaced other descriptors' % (e,))
        return ready, calls[before:]

    R, E = 1, 4
    for op in ops:
        state['opno'] += 1
        k = op[0]
        out = None
        if k == 'feed':
            sl = slots[op[1]]
            if sl is not None and sl['sock'].state == 'connected':
                peer = sl['sock'].rx.writer
                try:
                    peer.send(b'x')
                except Exception:
                    pass
                net.deliver(sl['sock'].rx.pid, 0)
        elif k == 'rst':
            sl = slots[op[1]]
            if sl is not None and sl['sock'].state == 'connected' and sl['sock'].conn.cid in net.conns:
                net.inject_reset(sl['sock'].conn.cid, 0)
        elif k == 'script':
            script[op[1]] = (op[2], op[3])
        elif k == 'poll':
            ready, called = do_poll()
            out = [(c[0], c[2]) for c in called]
        dig.update(repr((op, out)).encode())
        states.add(hash((tuple(sl is not None for sl in slots), len(subs), tuple(sorted(script)))))
        if viol:
            break
    if not viol:
        # level-triggered: whatever is subscribed and ready is reported by the next poll
        script.clear()
        ready, called = do_poll()
        got = set(c[1] for c in called)
        for fd in ready:
            if fd in subs and fd not in got:
                flag('lost_event', 'descriptor %d is subscribed and readable but a poll without any interference did not call its callback' % fd)
    res = dict(seed=seed, cfg=cfg, events=ops, n_events=state['opno'], sim_time=w.T, digest=dig.hexdigest(), violations=viol, cross=[],
               probes=dict(stats, poller_batch_runs=1, callbacks_called=len(calls)), faults={}, net=dict(net.stats),
               summary=dict(sent=0, delivered=0, bytes=0, drain_rounds=0), n_tick_exc=0, tick_exc=[], states=states, aborted=None,
               wall=_time.time() - t0, nontrivial=bool(stats))
    CTX.world = None
    return res


def run(seed, tier, cfg=None, events=None):
    rng = random.Random(seed)
    if cfg is None:
        # one case in eight exercises the pollers alone (batches of events whose callbacks close or replace other descriptors)
        cfg = draw_batch(rng, tier) if rng.random() < 0.125 else draw(rng, tier)
    if cfg.get('kind') == 'pollerbatch':
        if events is None:
            events = gen_batch_ops(rng, cfg)
        return execute_batch(seed, cfg, events)
    if events is None:
        events = gen_ops(rng, cfg)
    return execute(seed, cfg, events)


def fixed_prefix(events):
    return 0
