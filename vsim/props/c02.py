"""C02 Callback contract: SUCCESS means committed exactly once with that result."""
from .common import *
from . import c01

PROP = 'C02'
LEVEL = 'exploration'
INVARIANTS = ('cb_twice', 'success_not_committed', 'success_wrong_result', 'failed_but_committed', 'dup_in_G')
RULE = ('one case = one seeded execution under the C01 schedule space with submissions through leaders, followers and deposed '
        'leaders, command queue limits 0-3, commandsWaitLeader on/off; every submission has a unique tag and a callback; '
        'distinct = distinct event/state log digest; non-trivial = at least one SUCCESS callback and at least one non-SUCCESS '
        'callback were observed and more than one leadership was established')
COMPONENTS_REAL = REAL_CLUSTER
COMPONENTS_STUB = STUB_CLUSTER
ASSUMPTIONS = ASSUME_CLUSTER + ['sync calls are issued as async calls with a callback (the tick engine has no caller threads; C19 covers sync calls)']
BUDGET = dict(quick=dict(runs=640, wall=75, per_run_wall=60), thorough=dict(runs=60000, wall=900, per_run_wall=120))


class C02Spec(c01.C01Spec):
    prop = PROP
    invariants = INVARIANTS

    def draw(self, rng, tier='quick'):
        cfg = c01.C01Spec.draw(self, rng, tier)
        conf = cfg['conf']
        conf['commandsQueueSize'] = rng.choice([0, 1, 3, 100000, 100000])
        conf['commandsWaitLeader'] = rng.random() < 0.5
        cfg['sched']['w_sub'] = rng.choice([0.35, 0.8, 1.5])
        cfg['sched']['max_subs'] = 300 if tier == 'thorough' else 200
        cfg['sched']['quiet_rounds'] = 60
        return cfg

    def nontrivial(self, res):
        sm = res['summary']
        return sm['success'] > 0 and (sm['callbacks'] - sm['success']) > 0 and sm['leader_changes'] >= 2


SPEC = C02Spec()
run = make_run(SPEC)
