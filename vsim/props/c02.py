"""C02 Callback contract: SUCCESS means committed exactly once with that result."""
from .common import *
from . import c01

PROP = 'C02'
LEVEL = 'exploration'
from ..oracle import INV_PROP
INVARIANTS = ('cb_twice', 'success_not_committed', 'success_wrong_result', 'failed_but_committed', 'dup_in_G',
              'request_id_reused_while_pending')
INV_PROP['request_id_reused_while_pending'] = PROP
RULE = ('one case = one seeded execution under the C01 schedule space with submissions through leaders, followers and deposed '
        'leaders, command queue limits 0-3, commandsWaitLeader on/off; every submission has a unique tag and a callback; '
        'distinct = distinct event/state log digest; non-trivial = at least one SUCCESS callback and at least one non-SUCCESS '
        'callback were observed and more than one leadership was established')
COMPONENTS_REAL = REAL_CLUSTER
COMPONENTS_STUB = STUB_CLUSTER
ASSUMPTIONS = ASSUME_CLUSTER + ['sync calls are issued as async calls with a callback (the tick engine has no caller threads; C19 covers sync calls)']
BUDGET = dict(quick=dict(runs=640, wall=75, per_run_wall=60), thorough=dict(runs=60000, wall=900, per_run_wall=120))


class RequestTap(object):
    """Forwarded commands are matched with their answers by (requester address, request id) only.  A node that sends a
    request with an id it has used for another command whose answer may still arrive (no answer delivered yet) has set up
    the misrouting: the old answer binds the new command's callback to the old command's log position (SUCCESS with
    another command's result, or a failure reason for a command that is applied).  Reported at the second send - whether
    the old answer is still on its way is the scheduler's choice."""

    def __init__(self, world, oracle):
        self.w = world
        self.o = oracle
        self.pending = {}        # host -> {request id: (incarnation, command bytes)}

    def on_send(self, src, node, msg, ok):
        if not isinstance(msg, dict) or msg.get('type') != 'apply_command' or 'request_id' not in msg:
            return
        h = self.w.hosts[src]
        if h.doomed:
            return
        p = self.pending.setdefault(src, {})
        rid = msg['request_id']
        cmd = bytes(msg['command'])
        old = p.get(rid)
        if old is not None and old[1] != cmd:
            self.o.flag('request_id_reused_while_pending',
                        'host %d (incarnation %d) sends a forwarded command with request id %r, which it used (incarnation %d) for another command that has not been answered yet' % (
                            src, h.inc, rid, old[0]), dict(host=src))
        p[rid] = (h.inc, cmd)
        self.w.probe('forwarded_commands')

    def on_recv(self, dst, node, msg):
        if isinstance(msg, dict) and msg.get('type') == 'apply_command_response':
            self.pending.get(dst, {}).pop(msg.get('request_id'), None)


class C02Spec(c01.C01Spec):
    prop = PROP
    invariants = INVARIANTS

    def draw(self, rng, tier='quick'):
        cfg = c01.C01Spec.draw(self, rng, tier)
        conf = cfg['conf']
        conf['commandsQueueSize'] = rng.choice([0, 1, 3, 100000, 100000])
        conf['commandsWaitLeader'] = rng.random() < 0.5
        cfg['sched']['w_sub'] = rng.choice([0.35, 0.8, 1.5])
        cfg['sched']['max_subs'] = 300 if tier == 'thorough' else 200
        cfg['sched']['quiet_rounds'] = 60
        return cfg

    def make_tap(self, world, oracle):
        return RequestTap(world, oracle)

    def nontrivial(self, res):
        sm = res['summary']
        return sm['success'] > 0 and (sm['callbacks'] - sm['success']) > 0 and sm['leader_changes'] >= 2


SPEC = C02Spec()
run = make_run(SPEC)
