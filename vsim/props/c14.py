"""C14 Transport keeps one live connection per peer and reports it truthfully."""
from .common import *
from . import c01, c05
from ..oracle import INV_PROP, RaftOracle, log_of
from ..workload import KVApp
from ..boot import CTX, M, priv, HarnessError

PROP = 'C14'
LEVEL = 'exploration'
OWN = ('message_misattributed', 'message_from_non_member', 'blackhole_not_detected', 'pair_not_reconnected', 'probe_not_delivered',
       'connected_flag_mismatch', 'duplicate_live_connection', 'stranger_disturbs_tick')
INVARIANTS = OWN
for _i in OWN:
    INV_PROP[_i] = PROP
RULE = ('one case = one seeded execution of a 2-4 voter cluster (real TCPTransport under real SyncObj nodes, memory journals) under '
        'connection-level fault sequences: refused connects (peer down), resets noticed by either end first, black-holed pairs (until '
        'the read time-out or TCP keep-alive fires), half-open connections (one direction held), simultaneous reconnects, stale '
        'connections replaced by new incoming ones, peer restarts; then directed phases: (1) one pair is black-holed for longer than '
        'the detection bound while everything else runs - both ends must report it disconnected; (2) the network heals - within '
        'connectionRetryTime + detection bound every pair has one connection that both registries hold, isNodeConnected agrees on '
        'both sides and uniquely tagged probe messages pass in both directions; every probe ever delivered must be attributed to '
        'the member that sent it; (3, half of the runs with 3+ voters, dynamicMembershipChange) a member is removed - while up, '
        'while down, or while down with the others restarted since - and runs again with its old configuration: no message attributed '
        'to it may be delivered by a remaining member\'s transport and no connection may be registered for it; distinct = distinct event/state log digest; non-trivial = at least 2 connection-level fault kinds '
        'fired and at least one probe was delivered after them')
COMPONENTS_REAL = REAL_CLUSTER
COMPONENTS_STUB = STUB_CLUSTER + ['TCP keep-alive (modelled: an endpoint with SO_KEEPALIVE is reset after KEEPIDLE+KEEPINTVL*KEEPCNT of a dark path)']
ASSUMPTIONS = ASSUME_CLUSTER + ['bind failures are not injected (with manual ticks the constructor spins on tryGetReady)',
                                'detection bound = max(connectionTimeout + raftMaxTimeout + tick gaps, keep-alive budget) + slack']
BUDGET = dict(quick=dict(runs=480, wall=80, per_run_wall=60), thorough=dict(runs=40000, wall=900, per_run_wall=120))


class ProbeTap(object):
    def __init__(self, world, oracle):
        self.w = world
        self.o = oracle

    def on_send(self, src, node, msg, ok):
        pass

    def on_recv(self, dst, node, msg):
        if isinstance(msg, dict) and msg.get('type') == 'probe':
            self.o.on_probe(dst, node, msg)
        else:
            self.o.on_any(dst, node, msg)


_FAKE_AE = {'type': 'append_entries', 'term': 10 ** 6, 'commit_index': 1, 'entries': [], 'prevLogIdx': 1, 'prevLogTerm': 0}
STRANGER_MESSAGES = {
    'dict': [dict(_FAKE_AE), dict(_FAKE_AE)],                       # a protocol message without the handshake
    'empty_list': [[], dict(_FAKE_AE)],
    'nested_list': [[['status'], 1], dict(_FAKE_AE)],               # utility-style list whose command is not hashable
    'unknown_command': [['no_such_command', 1, 2], dict(_FAKE_AE)],
    'int': [12345, dict(_FAKE_AE)],
    'bytes': [b'10.0.0.1:4001', dict(_FAKE_AE)],
    'tuple': [('10.0.0.1:4001',), dict(_FAKE_AE)],
    'unknown_address': ['10.9.9.9:4999', dict(_FAKE_AE)],
    'none_then_dict': [None, dict(_FAKE_AE)],
    'set': [set([1, 2]), dict(_FAKE_AE)],
}


class C14App(KVApp):
    def apply_event(self, world, ev):
        if ev[1] == 'probe':
            src, dst, pid = ev[2], ev[3], ev[4]
            h = world.hosts[src]
            if h.node is None:
                return 'down'
            world.cur = src
            tr = priv(h.node, 'SyncObj', 'transport')
            target = None
            for nd in tr._nodes:
                if nd.id == world.hosts[dst].addr:
                    target = nd
            if target is None:
                return 'unknown'
            ok = tr.send(target, {'type': 'probe', 'from': src, 'id': pid})
            if world.oracle is not None:
                world.oracle.probes_sent[pid] = (src, dst, ok)
            return ('sent' if ok else 'notconnected', src)
        if ev[1] == 'stranger':
            # a process that is no member (a port scanner, a monitoring probe, a node of another cluster, an admin
            # tool of another version) on the same machine connects to the node's port and sends well-formed frames
            # whose first message is not a member address: nothing of it may reach SyncObj, and nothing may escape
            # the node's tick
            dst, kind = ev[2], ev[3]
            h = world.hosts[dst]
            if h.node is None:
                return 'down'
            from .c13 import encode
            net = world.net
            from ..net import SimSocket
            sock = SimSocket(net, dst)
            try:
                sock.connect(('10.0.0.%d' % (dst + 1), 4001 + dst))
            except BlockingIOError:
                pass
            cid = sock.conn.cid
            if net.resolve_connect(cid, 'ok') != 'ok':
                return 'refused'
            msgs = STRANGER_MESSAGES[kind]
            for m in msgs:
                try:
                    sock.send(encode(m))
                except (BlockingIOError, OSError):
                    break
            net.deliver(sock.tx.pid, 0)
            h.extra.setdefault('strangers', []).append(sock)
            world.fault('stranger_connection')
            return ('ok', dst)
        if ev[1] == 'mrem':
            h = world.hosts[ev[2]]
            if h.node is None:
                return 'down'
            world.cur = h.idx
            try:
                h.node.removeNodeFromCluster(world.hosts[ev[3]].addr, callback=lambda res, err: None)
            except Exception as e:
                return 'exc:' + type(e).__name__
            return ('ok', h.idx)
        raise HarnessError('unknown event %r' % (ev,))


class C14Oracle(RaftOracle):
    def __init__(self, world, app):
        RaftOracle.__init__(self, world, app)
        self.check_log_matching = False
        self.probes_sent = {}
        self.probes_got = {}
        self.flag_since = {}

    def on_probe(self, dst, node, msg):
        w = self.w
        src = msg['from']
        self.probes_got.setdefault(msg['id'], []).append(dst)
        w.probe('probe_delivered')
        if w.nfaults:
            w.probe('probe_delivered_after_fault')
        sender = w.hosts[src]
        if node.id != sender.addr:
            self.flag('message_misattributed', 'host %d received probe %r sent by host %d (%s) but the transport attributes it to %s' % (dst, msg['id'], src, sender.addr, node.id))
        n = w.hosts[dst].node
        if n is not None and node not in n.otherNodes and node not in n.readonlyNodes:
            self.flag('message_from_non_member', 'host %d received a message attributed to %s which is not in its node set' % (dst, node.id))
        sent = self.probes_sent.get(msg['id'])
        if sent is not None and sent[1] != dst:
            self.flag('message_misattributed', 'probe %r sent by host %d to host %d was delivered to host %d' % (msg['id'], sent[0], sent[1], dst))

    def _flags(self, a):
        """What a node reports about a peer's connection and what its transport holds agree (a mismatch that outlives a
        second and three of the node's ticks is no transient of one callback sequence)."""
        w = self.w
        for hb in w.hosts:
            b = hb.idx
            if b == a or hb.readonly or hb.addr is None:
                continue
            rep, reg = conn_state(w, a, b)
            k = (a, b)
            if rep and not reg:
                st = self.flag_since.get(k)
                if st is None:
                    self.flag_since[k] = [w.T, 0]
                else:
                    st[1] += 1
                    if w.T - st[0] > 1.0 and st[1] >= 3:
                        self.flag('connected_flag_mismatch', 'host %d has reported peer %d connected for %.1f s and %d ticks while its transport holds no connected connection for it (peer %s)' % (
                            a, b, w.T - st[0], st[1], 'down' if hb.node is None else 'up'), dict(pair=[a, b]))
            else:
                self.flag_since.pop(k, None)

    def after_event(self, ev, out, touched):
        w = self.w
        if ev[1] == 'tick' and touched is not None and w.hosts[touched].node is not None and not w.hosts[touched].readonly:
            self._flags(touched)
        if ev[1] == 'tick' and isinstance(out, str) and out.startswith('exc:') and w.hosts[ev[2]].extra.get('strangers'):
            e = w.tick_exc[-1]
            if 'transport.py' in str(e[3]):
                self.flag('stranger_disturbs_tick', 'host %d: an exception escaped the tick while the first message of a non-member connection was handled: %s at %s' % (
                    e[1], e[2], e[3]), dict(origin=e[3]))
        RaftOracle.after_event(self, ev, out, touched)

    def on_any(self, dst, node, msg):
        """Every message the transport hands to SyncObj must be attributed to a node of the receiver's current node set."""
        n = self.w.hosts[dst].node
        if n is not None and node not in n.otherNodes and node not in n.readonlyNodes:
            self.flag('message_from_non_member', 'host %d: the transport delivered a %s message attributed to %s, which is not (any more) in its node set' % (
                dst, msg.get('type') if isinstance(msg, dict) else type(msg).__name__, node.id))

    def summary(self):
        s = RaftOracle.summary(self)
        s.update(probes_sent=len(self.probes_sent), probes_delivered=len(self.probes_got))
        return s


class C14Sched(Scheduler):
    def extra_choices(self, items):
        w = self.w
        ups = [h.idx for h in w.hosts if h.node is not None]
        if len(ups) >= 2:
            items.append((self.s.get('w_probe', 0.2), 'probe'))
            if self.s.get('w_cut', 0) > 0 and not w.cuts:
                items.append((self.s['w_cut'], 'cut'))
        if ups and self.s.get('w_stranger', 0) > 0:
            items.append((self.s['w_stranger'], 'stranger'))

    def build_extra(self, k, dt):
        w, rng = self.w, self.rng
        ups = [h.idx for h in w.hosts if h.node is not None]
        if k == 'probe':
            a, b = rng.sample(ups, 2)
            pid = self.next_tag
            self.next_tag += 1
            return [dt, 'probe', a, b, pid]
        if k == 'cut':
            a, b = rng.sample(range(len(w.hosts)), 2)
            return [dt, 'cut', a, b]
        if k == 'stranger':
            return [dt, 'stranger', rng.choice(ups), rng.choice(sorted(STRANGER_MESSAGES))]
        return Scheduler.build_extra(self, k, dt)


def conn_state(w, a, b):
    """(a reports b connected, a's registry holds a CONNECTED connection for b)"""
    ha, hb = w.hosts[a], w.hosts[b]
    n = ha.node
    tr = priv(n, 'SyncObj', 'transport')
    nodeb = None
    for nd in tr._nodes:
        if nd.id == hb.addr:
            nodeb = nd
    if nodeb is None:
        return None, None
    c = tr._connections.get(nodeb)
    CS = M.tc.CONNECTION_STATE
    return n.isNodeConnected(nodeb), (c is not None and c.state == CS.CONNECTED)


class C14Spec(c01.C01Spec):
    churn_share = 0
    prop = PROP
    invariants = INVARIANTS

    def draw(self, rng, tier='quick'):
        cfg = c01.C01Spec.draw(self, rng, tier)
        cfg['n_voters'] = rng.choice([2, 3, 3, 4])
        conf = cfg['conf']
        conf['logCompactionMinEntries'] = 1 << 30
        conf['logCompactionMinTime'] = 1 << 30
        conf['dump'] = False
        conf['useFork'] = False
        cfg['placement'] = 'memory'
        conf['tcp_keepalive'] = rng.choice([[1, 1, 2], [2, 1, 3], [16, 3, 5], [60, 10, 3]])
        # (chunking batch sizes are C11's subject: with one-byte chunks a restarted empty follower is sent its leader's whole
        # log in some hundred messages per entry and a probe waits behind 150 KB of backlog - bandwidth is a premise here)
        conf['appendEntriesBatchSizeBytes'] = max(conf['appendEntriesBatchSizeBytes'], 1024)
        conf['connectionTimeout'] = max(conf['raftMaxTimeout'], rng.choice([1.5, 3.5]))
        conf['connectionRetryTime'] = rng.choice([0, 0.5, 2.0])
        s = cfg['sched']
        s['steps'] = rng.choice([1500, 3000])
        s['w_sub'] = 0.1
        s['w_compact'] = 0.0
        s['w_rst'] = rng.choice([0.03, 0.1])
        s['w_hold'] = rng.choice([0.03, 0.1])
        s['w_part'] = rng.choice([0.0, 0.01])
        s['w_cut'] = rng.choice([0.0, 0.01])
        s['w_kill'] = rng.choice([0.0, 0.01])
        s['w_start'] = rng.choice([0.05, 0.5])
        s['w_probe'] = rng.choice([0.1, 0.4])
        s['w_stranger'] = rng.choice([0.0, 0.01, 0.03])
        s['w_heal'] = 0.03
        cfg['stale_replace_phase'] = True
        cfg['slow_connect_phase'] = rng.random() < 0.5
        if cfg['n_voters'] >= 3 and rng.random() < 0.5:
            conf['dynamicMembershipChange'] = True
            cfg['removal_phase'] = rng.choice(['up', 'down', 'down_restart_others', 'down_restart_others'])
        return cfg

    def make_app(self, cfg):
        return C14App(cfg)

    def make_oracle(self, world, app):
        return C14Oracle(world, app)

    def make_tap(self, world, oracle):
        return ProbeTap(world, oracle)

    def make_sched(self, world, rng, cfg):
        return C14Sched(world, rng, cfg)

    def bound(self, cfg):
        c = cfg['conf']
        ka = c.get('tcp_keepalive') or [16, 3, 5]
        return max(c['connectionTimeout'] + 2 * c['raftMaxTimeout'], ka[0] + ka[1] * ka[2]) + 1.0

    def quiet(self, w, orc, sch, apply):
        cfg = w.cfg
        det = self.bound(cfg)
        n = len(w.hosts)

        def rounds(duration):
            t0 = w.T
            while w.T - t0 < duration:
                quiet_round(w, apply, 0.05)
                # forced kernel events: keep-alive resets of dark connections
                for _ in range(4):
                    ev = sch_forced(sch)
                    if ev is None:
                        break
                    apply(ev)
                if any(v.inv in OWN for v in orc.violations):
                    return False
            return True
        apply([0.0, 'heal'])
        sch.held = []
        for h in w.hosts:
            if h.node is None:
                apply([0.0, 'start', h.idx])
        if not rounds(cfg['conf']['connectionRetryTime'] + det + cfg['sched']['connect_timeout'] + 2.0):
            return
        # phase 1: black-hole one pair for longer than the detection bound.  A node that leads all the time sends
        # heartbeats over the dead link: its read time-out alone has to notice after connectionTimeout of silence,
        # however long the keep-alive budget of the sockets is.  Everything else (a follower, an idle pair, a leader
        # that was deposed meanwhile) is only promised the general bound (read time-out or TCP keep-alive).
        if n >= 2:
            a, b = 0, n - 1
            lead = sch.leader_idx()
            if lead is not None:
                a, b = lead, (lead + 1) % n
            apply([0.0, 'cut', a, b])
            t_cut = w.T
            if lead is not None:
                tight = 1.15 * (cfg['conf']['connectionTimeout'] + 2 * cfg['conf']['raftMaxTimeout']) + 1.0
                led = True
                while w.T - t_cut < min(tight, det) + 1.0:
                    if not rounds(0.1):
                        return
                    nd = w.hosts[lead].node
                    if nd is None or not nd._isLeader():
                        led = False
                        break
                if led and tight < det:
                    w.probe('blackhole_pair_with_steady_leader')
                    rep, reg = conn_state(w, a, b)
                    if rep:
                        orc.flag('blackhole_not_detected', 'host %d has led and sent heartbeats to the black-holed host %d for %.1f s (read time-out bound %.1f s) but still reports it connected' % (
                            a, b, w.T - t_cut, tight), dict(pair=[a, b], reporter=a))
                        return
            if not rounds(max(0.0, det + 1.0 - (w.T - t_cut))):
                return
            for x, y in ((a, b), (b, a)):
                rep, reg = conn_state(w, x, y)
                if rep:
                    orc.flag('blackhole_not_detected', 'hosts %d and %d have been black-holed for %.1f s (detection bound %.1f s) but host %d still reports the peer connected' % (a, b, det + 1.0, det, x),
                             dict(pair=[a, b], reporter=x))
                    return
        # phase 2: heal; every pair reconnects and probes pass
        apply([0.0, 'heal'])
        if not rounds(cfg['conf']['connectionRetryTime'] + det + 2.0):
            return
        pid = sch.next_tag + 100000
        expect = []
        for a in range(n):
            for b in range(n):
                if a == b:
                    continue
                rep, reg = conn_state(w, a, b)
                if not rep or not reg:
                    orc.flag('pair_not_reconnected', '%.1f s after the network healed host %d reports peer %d connected=%r, registry connection connected=%r' % (
                        cfg['conf']['connectionRetryTime'] + det + 2.0, a, b, rep, reg))
                    return
                pid += 1
                apply([0.0, 'probe', a, b, pid])
                expect.append((pid, a, b))
        if not rounds(1.0):
            return
        for pid, a, b in expect:
            got = orc.probes_got.get(pid)
            if got != [b]:
                orc.flag('probe_not_delivered', 'probe %d sent by host %d to host %d over a connection both ends report connected was delivered to %r' % (pid, a, b, got))
                return
        # one live connection per pair: count open SimNet connections between each pair whose both ends are CONNECTED TcpConnections
        for a in range(n):
            for b in range(a + 1, n):
                live = [c for c in w.net.conns.values() if set((c.chost, c.shost)) == set((a, b)) and c.csock.state == 'connected' and c.ssock is not None and c.ssock.state == 'connected'
                        and not c.csock.reset and not c.ssock.reset]
                if len(live) > 1:
                    orc.flag('duplicate_live_connection', 'hosts %d and %d hold %d live connections after the quiet period' % (a, b, len(live)))
                    return
        # phase 2b: a stale connection is replaced by a new incoming one.  The connection of one pair goes silent for good
        # (both directions held: a middlebox dropped its state), the dialling member is restarted - its FIN never arrives -
        # and dials again: the accepting side still holds the dead connection as CONNECTED and has to put the new one in its
        # place; within connectionRetryTime and a little the pair must exchange probes both ways
        if n >= 2 and cfg.get('stale_replace_phase'):
            a, b = 0, n - 1                     # the greater address dials
            cids = [cid for cid, c in w.net.conns.items() if c.chost == b and c.shost == a]
            if cids and w.hosts[a].node is not None and w.hosts[b].node is not None:
                for cid in cids:
                    for pid_ in (cid + '/0', cid + '/1'):
                        if pid_ in w.net.pipes:
                            apply([0.0, 'hold', pid_, 1])
                apply([0.0, 'kill', b, 1])
                apply([0.0, 'start', b])
                w.probe('stale_connection_phase')
                # probe as soon as the restarted dialler reports the connection (a connection on which one side has been
                # silent for connectionTimeout is closed by the other side's next send - the library's read time-out -
                # which is not what this phase is about)
                t0 = w.T
                lim = cfg['conf']['connectionRetryTime'] + 2 * cfg['conf']['raftMaxTimeout'] + 2.0
                while w.T - t0 < lim:
                    if not rounds(0.1):
                        return
                    if w.hosts[b].node is not None and conn_state(w, b, a)[0]:
                        break
                # the accepting side learns who dialled from the first message on the new connection
                if not rounds(0.3):
                    return
                exp2 = []
                for x, y in ((a, b), (b, a)):
                    pid += 1
                    apply([0.0, 'probe', x, y, pid])
                    exp2.append((pid, x, y))
                if not rounds(1.0):
                    return
                for p_, x, y in exp2:
                    got = orc.probes_got.get(p_)
                    if got != [y]:
                        orc.flag('pair_not_reconnected', 'host %d was restarted while its connection to host %d had gone silent and dialled again: %.1f s later a probe from host %d to host %d was delivered to %r (the accepting side has to replace the stale connection by the new one)' % (
                            b, a, cfg['conf']['connectionRetryTime'] + 2 * cfg['conf']['raftMaxTimeout'] + 3.0, x, y, got), dict(pair=[a, b]))
                        return
        # phase 2c: a link that was merely idle.  Two followers exchange nothing while the leader is stable; after more
        # than connectionTimeout of such silence both still report each other connected - then a message in either
        # direction has to arrive (nothing is wrong with the link or the peer)
        lead = sch.leader_idx()
        if n >= 3 and lead is not None:
            fol = [i for i in range(n) if i != lead and w.hosts[i].node is not None]
            if len(fol) >= 2:
                x, y = fol[0], fol[-1]
                idle = cfg['conf']['connectionTimeout'] * 1.3 + 0.5
                t0 = w.T
                steady = True
                while w.T - t0 < idle:
                    if not rounds(0.2):
                        return
                    if sch.leader_idx() != lead:
                        steady = False
                        break
                if steady and conn_state(w, x, y) == (True, True) and conn_state(w, y, x) == (True, True):
                    w.probe('idle_link_phase')
                    exp3 = []
                    for a_, b_ in ((x, y),) if (w.seed & 1) else ((y, x),):
                        pid += 1
                        apply([0.0, 'probe', a_, b_, pid])
                        exp3.append((pid, a_, b_))
                    if not rounds(1.0):
                        return
                    for p_, a_, b_ in exp3:
                        sent = orc.probes_sent.get(p_)
                        if sent is not None and sent[2] and orc.probes_got.get(p_) != [b_]:
                            orc.flag('probe_not_delivered', 'hosts %d and %d (both followers of a steady leader) reported each other connected after %.1f s without traffic between them (connectionTimeout %.1f s); the first message from %d to %d was accepted by the transport but not delivered (delivered to %r)' % (
                                x, y, idle, cfg['conf']['connectionTimeout'], a_, b_, orc.probes_got.get(p_)), dict(pair=[x, y], idle=True))
                            return
        # phase 2d: a slow handshake.  The connection of one pair is reset; every new connect between the two takes longer
        # than connectionTimeout to complete (lost SYNs) but does complete: the network allows the connection, the pair
        # has to have it after a few such delays
        if cfg.get('slow_connect_phase') and n >= 2:
            import random as _random
            r = _random.Random(w.seed * 17 + 3)
            a = r.randrange(n)
            b = r.choice([i for i in range(n) if i != a])
            d, acc = (a, b) if w.hosts[a].addr > w.hosts[b].addr else (b, a)       # the greater address dials
            delay = cfg['conf']['connectionTimeout'] * 1.25 + 0.2
            w.slow_pairs = {(d, acc): delay}
            for cid, c in list(w.net.conns.items()):
                if (c.chost, c.shost) == (d, acc):
                    apply([0.0, 'rst', cid, 0])
            w.probe('slow_connect_phase')
            if not rounds(4 * (delay + cfg['conf']['connectionRetryTime']) + 2 * cfg['conf']['raftMaxTimeout'] + 2.0):
                return
            ok = conn_state(w, d, acc) == (True, True) and conn_state(w, acc, d) == (True, True)
            w.slow_pairs = None
            if not ok:
                orc.flag('pair_not_reconnected', 'every connect from host %d to host %d takes %.1f s to complete (connectionTimeout %.1f s) but does complete: after %.1f s the pair is still not connected (%r / %r)' % (
                    d, acc, delay, cfg['conf']['connectionTimeout'], 4 * (delay + cfg['conf']['connectionRetryTime']) + 2 * cfg['conf']['raftMaxTimeout'] + 2.0,
                    conn_state(w, d, acc), conn_state(w, acc, d)), dict(pair=[d, acc], slow=True))
                return
            if not rounds(1.0):
                return
        # phase 3: a member is removed (while up, while down, or while down and the others were restarted since it was last
        # seen) and then runs again with its old configuration: nothing of it may reach the remaining members
        mode = cfg.get('removal_phase')
        if mode and n >= 3:
            self.removal_phase(w, orc, sch, apply, rounds, mode, det)

    def removal_phase(self, w, orc, sch, apply, rounds, mode, det):
        import random as _random
        r = _random.Random(w.seed * 31 + 7)
        n = len(w.hosts)
        lead = sch.leader_idx()
        if lead is None:
            w.probe('removal_phase_no_leader')
            return
        cand = [i for i in range(n) if i != lead]
        # the node with the greatest address dials everybody else: the accepting side has to recognise it
        x = max(cand) if r.random() < 0.5 else r.choice(cand)
        others = [i for i in range(n) if i != x]
        if mode != 'up':
            apply([0.0, 'kill', x, 1])
        if mode == 'down_restart_others':
            k = r.choice([1, len(others)])
            for i in r.sample(others, k):
                apply([0.0, 'kill', i, 1])
                apply([0.0, 'start', i])
            if not rounds(4 * w.cfg['conf']['raftMaxTimeout'] + 1.0):
                return
        lead = sch.leader_idx()
        if lead is None or lead == x:
            w.probe('removal_phase_no_leader')
            return
        apply([0.0, 'mrem', lead, x])
        xaddr = w.hosts[x].addr
        t0 = w.T
        gone = False
        while w.T - t0 < det + 2.0 and not gone:
            if not rounds(0.2):
                return
            gone = all(w.hosts[i].node is None or all(nd.id != xaddr for nd in w.hosts[i].node.otherNodes) for i in others)
        if not gone:
            w.probe('removal_not_applied')
            return
        w.probe('removal_applied_' + mode)
        if w.hosts[x].node is None:
            apply([0.0, 'start', x])
        if not rounds(w.cfg['conf']['connectionRetryTime'] + 3 * w.cfg['conf']['raftMaxTimeout'] + 2.0):
            return
        CS = M.tc.CONNECTION_STATE
        for i in others:
            nd = w.hosts[i].node
            if nd is None:
                continue
            tr = priv(nd, 'SyncObj', 'transport')
            for node, c in tr._connections.items():
                if node.id == xaddr and c.state == CS.CONNECTED:
                    orc.flag('message_from_non_member', 'host %d holds a connected connection registered for the removed node %s' % (i, xaddr))
                    return

    def nontrivial(self, res):
        f = res['faults']
        kinds = len([k for k in ('reset', 'hold_pipe', 'partition', 'blackhole_pair', 'kill_between_steps', 'restart') if f.get(k, 0) > 0])
        return kinds >= 2 and res['probes'].get('probe_delivered_after_fault', 0) > 0


def sch_forced(sch):
    """Only the kernel-forced part of the scheduler (keep-alive resets)."""
    w, net = sch.w, sch.w.net
    dark = sch.dark
    for cid, c in net.conns.items():
        if w.blocked(c.chost, c.shost) or (c.p_cs.held and c.p_sc.held):
            dark.setdefault(cid, w.T)
        else:
            dark.pop(cid, None)
    for cid in list(dark):
        if cid not in net.conns:
            del dark[cid]
    due = net.keepalive_due(dark, w.T)
    if due:
        w.probe('keepalive_reset')
        return [0.0, 'rst', due[0][0], due[0][1]]
    return None


SPEC = C14Spec()
run = make_run(SPEC)
