"""C01 State-machine safety: replicas apply one common command sequence."""
from .common import *

PROP = 'C01'
LEVEL = 'exploration'
INVARIANTS = ('apply_conflict', 'apply_order', 'apply_skip', 'apply_tag_mismatch', 'state_mismatch', 'applied_not_committed',
              'sent_entry_not_in_log')
RULE = ('one case = one seeded execution of a 2-5 voter cluster (real SyncObj/TCPTransport/serializer over SimNet/SimFS) '
        'under a drawn swarm configuration (batch/chunk sizes, serializer placement memory|file|file+fork, batch mode, '
        'socket capacity, clock rates) with delays, fragmentation, resets, holds, partitions/heals, forced and automatic '
        'compaction and submissions on any node; distinct = distinct SHA-256 of the executed event/state log; '
        'non-trivial = at least one commit happened after at least one injected fault AND (a leader change beyond the '
        'first election OR a snapshot install on a follower happened)')
COMPONENTS_REAL = REAL_CLUSTER
COMPONENTS_STUB = STUB_CLUSTER
ASSUMPTIONS = ASSUME_CLUSTER + ['no node loses its memory (no kills in C01 runs)']
BUDGET = dict(quick=dict(runs=640, wall=75, per_run_wall=60), thorough=dict(runs=60000, wall=900, per_run_wall=120))


class C01Spec(Spec):
    prop = PROP
    invariants = INVARIANTS
    churn_share = 0.4          # share of leader-churn runs (sched.apply_churn); 0 in specs that build on this draw
    cb_raise_share = 0.17
    guide_share = 0.25         # share of the churn runs that start with the guided late-acknowledgement schedule

    def draw(self, rng, tier='quick'):
        cfg = draw_common(rng, compaction=(rng.random() < 0.8))
        s = cfg['sched']
        conf = cfg['conf']
        # serializer placement
        place = rng.choice(['memory', 'file', 'fork'])
        if place != 'memory':
            conf['dump'] = True
            conf['useFork'] = (place == 'fork')
        cfg['placement'] = place
        s['w_rst'] = rng.choice([0.0, 0.02, 0.05, 0.1])
        s['w_hold'] = rng.choice([0.0, 0.02, 0.05])
        s['w_part'] = rng.choice([0.0, 0.004, 0.01])
        s['w_heal'] = rng.choice([0.02, 0.05, 0.2])
        s['w_compact'] = rng.choice([0.0, 0.01, 0.05])
        s['w_stall'] = rng.choice([0.0, 0.01])
        s['w_sub'] = rng.choice([0.2, 0.35, 0.8])
        s['steps'] = 8000 if tier == 'thorough' else 5000
        # one run in six: some of the application's callbacks raise after they were called
        cfg['cb_raise'] = rng.random() < self.cb_raise_share
        s['max_subs'] = 250 if tier == 'thorough' else 150
        if self.churn_share and rng.random() < self.churn_share:
            apply_churn(rng, cfg)
            cfg['n_voters'] = rng.choice([3, 3, 3, 5])
            if rng.random() < self.guide_share:
                # guided "late acknowledgement" schedule (five voters), see Scheduler._guide_stale_ack
                apply_guide_stale_ack(rng, cfg)
                s['w_rst'] = 0.0
                s['w_hold'] = 0.0
                s['w_stall'] = 0.0
        return cfg

    def nontrivial(self, res):
        sm = res['summary']
        return (sm['commits_after_fault'] > 0 and
                (sm['leader_changes'] >= 2 or res['probes'].get('snapshot_install', 0) > 0))


SPEC = C01Spec()
run = make_run(SPEC)
