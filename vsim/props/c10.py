"""C10 Membership changes keep safety and every node agrees on the member set."""
from .common import *
from . import c01, c05
from ..oracle import INV_PROP, RaftOracle, log_of, norm, LEADER
from ..workload import KVApp
from ..boot import CTX, M, priv, HarnessError

PROP = 'C10'
LEVEL = 'exploration'
OWN = ('concurrent_membership_change', 'change_before_own_term_commit', 'disjoint_quorums', 'member_set_mismatch',
       'vote_from_non_member_counted', 'removed_node_leads')
INVARIANTS = OWN + ('apply_conflict', 'apply_order', 'apply_skip', 'apply_tag_mismatch', 'state_mismatch', 'applied_not_committed',
                    'two_leaders', 'leader_incomplete', 'commit_conflict', 'committed_entry_changed', 'not_majority', 'commit_back',
                    'failed_but_committed', 'success_not_committed', 'cb_twice')
for _i in OWN:
    INV_PROP[_i] = PROP
RULE = ('one case = one seeded execution with dynamicMembershipChange=True: a cluster of 1-4 initial voters plus spare hosts; add / '
        'remove requests for one node at a time are issued through the API on any node at any time (also while another change is '
        'pending and across leader changes; refusals are part of the behaviour) under the C01 network schedules; operator '
        'discipline: a node whose removal has committed is shut down and does not return, an added node starts empty with the '
        'committed member list; the C01-C04 oracles use the majority of the deciding node\'s own member set; distinct = distinct '
        'event/state log digest; non-trivial = at least 2 membership requests were made, at least one was accepted and committed, '
        'and a leader change or a refusal happened')
COMPONENTS_REAL = REAL_CLUSTER
COMPONENTS_STUB = STUB_CLUSTER
ASSUMPTIONS = ASSUME_CLUSTER + ['requests go through the API (addNodeToCluster / removeNodeFromCluster); the admin-message path (_onUtilityMessage) calls the same methods',
                                'no kills other than the shut-down of removed nodes (memory is kept)']
BUDGET = dict(quick=dict(runs=480, wall=80, per_run_wall=60), thorough=dict(runs=40000, wall=900, per_run_wall=120))


class MemberApp(KVApp):
    def peers_of(self, world, host):
        if host.extra.get('joiner'):
            cur = world.oracle.committed_members()
            return [world.hosts[i].addr for i in sorted(cur) if i != host.idx]
        return KVApp.peers_of(self, world, host)

    def apply_event(self, world, ev):
        k = ev[1]
        if k in ('madd', 'mrem'):
            h = world.hosts[ev[2]]
            if h.node is None:
                return 'down'
            world.cur = h.idx
            tag = ev[4]
            idx = h.idx
            addr = world.hosts[ev[3]].addr

            def cb(res, err):
                w = CTX.world
                if w is not None and not w.hosts[idx].doomed:
                    w.oracle.on_member_result(tag, err)
            world.oracle.on_member_request(tag, k, ev[2], ev[3])
            if len(ev) > 5 and ev[5] == 'admin':
                # the admin-message path (what syncobj_admin does): a utility connection from the node's own machine
                # carries ['add'|'remove', address]; the answer ('SUCCESS ADD <addr>' / 'FAIL ...') comes back on it
                from ..net import SimSocket
                from .c13 import encode, RefReceiver
                net = world.net
                sock = SimSocket(net, h.idx)
                try:
                    sock.connect(('10.0.0.%d' % (h.idx + 1), 4001 + h.idx))
                except BlockingIOError:
                    pass
                if net.resolve_connect(sock.conn.cid, 'ok') != 'ok':
                    return 'refused'
                try:
                    sock.send(encode(['add' if k == 'madd' else 'remove', addr]))
                except (BlockingIOError, OSError):
                    return 'notsent'
                net.deliver(sock.tx.pid, 0)
                world.oracle.admin_conns.append((sock, tag, RefReceiver()))
                world.probe('membership_request_by_admin_message')
                return ('ok', h.idx)
            try:
                if k == 'madd':
                    h.node.addNodeToCluster(addr, callback=cb)
                else:
                    h.node.removeNodeFromCluster(addr, callback=cb)
            except Exception as e:
                return 'exc:' + type(e).__name__
            return ('ok', h.idx)
        if k == 'join':
            # the operator starts a fresh, empty process for the node that is being added
            h = world.hosts[ev[2]]
            h.extra['joiner'] = True
            h.member = False
            return world.start(ev[2]), ev[2]
        if k == 'retire':
            h = world.hosts[ev[2]]
            h.extra['retired'] = True
            world.fault('removed_node_shut_down')
            return world.kill(ev[2])
        raise HarnessError('unknown event %r' % (ev,))


class MemberOracle(RaftOracle):
    def __init__(self, world, app):
        RaftOracle.__init__(self, world, app)
        self.check_log_matching = False
        self.addr_to_idx = dict((h.addr, h.idx) for h in world.hosts if h.addr)
        self.initial = frozenset(h.idx for h in world.hosts if h.member and not h.readonly)
        self.fold = {1: self.initial}        # position -> member set after applying G[..position]
        self.fold_top = 1
        self.requests = {}                   # tag -> (kind, via, target)
        self.results = {}
        self.accepted = 0
        self.refused = 0
        self.member_commits = 0
        self.majority_of = self._decision_members
        self.prev_last = {}                  # host -> last log index before the current event
        self.seen_member_entries = {}        # host -> set of (idx, term) membership entries already examined
        self.removed_committed = {}          # target idx -> position
        self.seen_blobs = {}
        self.admin_conns = []                # (utility socket, request tag, frame decoder) of admin-message requests

    # -- bookkeeping -----------------------------------------------------------------------
    def on_member_request(self, tag, kind, via, target):
        self.requests[tag] = (kind, via, target)

    def on_member_result(self, tag, err):
        self.results[tag] = err
        if err == 0:
            self.accepted += 1
        elif err == M.cf.FAIL_REASON.REQUEST_DENIED:
            self.refused += 1
            self.w.probe('membership_request_refused')

    def _decision_members(self, host):
        """Member set in effect when the commit decision of this event was taken: the fold of the membership
        entries the node's log held BEFORE this event (entries appended later in the same event - they take
        effect when appended - did not take part in the decision)."""
        n = host.node
        log = log_of(n)
        ents = log[:]
        base = ents[0][1]
        prev_last = self.prev_last.get(host.idx)
        if prev_last is None:
            return self._member_idx(host)
        if base <= 1 and host.extra.get('joiner'):
            # a joiner was started with the committed member list; its log then replays the changes
            cur = host.extra.get('start_members')
            if cur is None:
                return self._member_idx(host)
        elif base <= 1:
            cur = self.initial
        elif self._extend_fold(base - 1):
            cur = self.fold[base - 1]
        else:
            return self._member_idx(host)
        for e in ents:
            if e[1] > prev_last:
                break
            d = self.app.decode(norm(e)[0])
            if d[0] == 'member':
                cur = self._apply_member(cur, d)
        return sorted(set(cur) | set([host.idx]))

    def _member_idx(self, host):
        n = host.node
        out = set()
        if not host.readonly:
            out.add(host.idx)
        for nd in n.otherNodes:
            i = self.addr_to_idx.get(nd.id)
            if i is not None:
                out.add(i)
        return sorted(out)

    def _apply_member(self, members, d):
        kind, nid = d[2][0], d[2][1]
        i = self.addr_to_idx.get(nid)
        s = set(members)
        if i is None:
            return frozenset(s)
        if kind == 'add':
            s.add(i)
        elif kind == 'rem':
            s.discard(i)
        return frozenset(s)

    def _extend_fold(self, upto):
        while self.fold_top < upto:
            p = self.fold_top + 1
            if p not in self.Gdec:
                return False
            d = self.Gdec[p]
            cur = self.fold[self.fold_top]
            if d[0] == 'member':
                new = self._apply_member(cur, d)
                if new != cur:
                    self.member_commits += 1
                    if d[2][0] == 'rem':
                        i = self.addr_to_idx.get(d[2][1])
                        if i is not None:
                            self.removed_committed[i] = p
                cur = new
            self.fold[p] = cur
            self.fold_top = p
        return True

    def committed_members(self):
        top = max(self.G) if self.G else 1
        self._extend_fold(top)
        return self.fold[self.fold_top]

    # -- checks ------------------------------------------------------------------------------
    def on_state(self, host, old, new):
        RaftOracle.on_state(self, host, old, new)
        if new == LEADER and host.idx in self.removed_committed and not host.extra.get('retired'):
            self.w.probe('removed_node_became_leader_in_its_own_view')

    def after_event(self, ev, out, touched):
        RaftOracle.after_event(self, ev, out, touched)
        w = self.w
        if self.admin_conns:
            # answers to admin-message requests
            keep = []
            for sock, tag, rr in self.admin_conns:
                if sock.rx is not None and sock.rx.rcv:
                    rr.feed(bytes(sock.rx.rcv))
                    del sock.rx.rcv[:]
                if rr.out:
                    ans = rr.out[0]
                    w.probe('admin_answer_' + (str(ans).split(' ')[0] if isinstance(ans, str) else type(ans).__name__))
                    self.on_member_result(tag, 0 if isinstance(ans, str) and ans.startswith('SUCCESS') else -1)
                    sock.close()
                elif sock.state == 'connected' and not sock.reset:
                    keep.append((sock, tag, rr))
            self.admin_conns = keep
        if touched is None:
            return
        h = w.hosts[touched]
        n = h.node
        if n is None:
            self.prev_last.pop(touched, None)
            return
        log = log_of(n)
        if len(log) == 0:
            return
        ents = log[:]
        self.prev_last[touched] = ents[-1][1]
        self._check_snapshot_members(h, n)
        commit = n.raftCommitIndex
        state = priv(n, 'SyncObj', 'raftState')
        term = n.raftCurrentTerm
        # (a) a leader appends a membership entry only when no earlier one is uncommitted in its log and it has
        # committed an entry of its own term
        seen = self.seen_member_entries.setdefault(h.idx, set())
        members_in_log = []
        for e in ents:
            c = e[0]
            t0 = c[0] if isinstance(c[0], int) else ord(c[0])
            if t0 == 2:
                members_in_log.append((e[1], e[2]))
        for (idx, t) in members_in_log:
            if (idx, t) in seen:
                continue
            seen.add((idx, t))
            if state == LEADER and t == term and idx > commit:
                # appended by this leader in this event (or earlier in its leadership, first time we see it)
                earlier = [x for x in members_in_log if x[0] < idx and x[0] > commit]
                if earlier:
                    self.flag('concurrent_membership_change',
                              'leader %d (term %d) appended the membership change at position %d while the change at position %d is not committed (commit index %d)' % (
                                  h.idx, term, idx, earlier[0][0], commit), dict(leader=h.idx, positions=[earlier[0][0], idx]))
                own_term_committed = any(e[2] == term and e[1] <= commit for e in ents) or any(g[2] == term for p, g in self.G.items())
                if not own_term_committed:
                    self.flag('change_before_own_term_commit', 'leader %d (term %d) appended a membership change at position %d before committing an entry of its own term' % (h.idx, term, idx))
        # (c) the node's member set == fold of the membership entries of the common sequence below its log and of its own log above
        base = ents[0][1]
        expect = None
        if base <= 1:
            expect = self.initial if not h.extra.get('joiner') else None
        else:
            if self._extend_fold(base - 1):
                expect = self.fold[base - 1]
        if h.extra.get('joiner') and expect is None:
            # a joiner is held to the rule from the moment its log contains its own add entry; before that
            # it was started with the committed member list
            expect = h.extra.get('start_members')
        if expect is not None:
            cur = expect
            for e in ents:
                d = self.app.decode(norm(e)[0])
                if d[0] == 'member':
                    cur = self._apply_member(cur, d)
            have = frozenset(self._member_idx(h))
            if h.extra.get('joiner'):
                own_add = any(self.app.decode(norm(e)[0])[0] == 'member' and self.addr_to_idx.get(self.app.decode(norm(e)[0])[2][1]) == h.idx for e in ents)
                if not own_add and base > 1:
                    # its log starts above position 1: either it installed a snapshot that covers its own add entry, or it
                    # merely compacted its own short log (the operator's member list is then still ahead of its log)
                    for q in range(2, base):
                        dq = self.Gdec.get(q)
                        if dq is not None and dq[0] == 'member' and dq[2][0] == 'add' and self.addr_to_idx.get(dq[2][1]) == h.idx:
                            own_add = True
                if not own_add:
                    cur = None
            if cur is not None and have != (cur | frozenset([h.idx])):
                # classification for the known finding: does the set equal what one gets when the membership
                # entries up to the applied index are applied a second time (at commit) after the whole log?
                re = cur
                for e in ents:
                    if e[1] <= n.raftLastApplied:
                        d = self.app.decode(norm(e)[0])
                        if d[0] == 'member':
                            re = self._apply_member(re, d)
                self.flag('member_set_mismatch', 'host %d considers %r the voters; the membership commands in its log (base %d) over the common sequence give %r' % (
                    h.idx, sorted(have), base, sorted(cur | frozenset([h.idx]))),
                    dict(reapplied_at_commit=(have == (re | frozenset([h.idx]))), applied=n.raftLastApplied, commit=commit))
        # (b) quorums of simultaneous leaders intersect
        if state == LEADER:
            m1 = set(self._member_idx(h))
            for o in w.hosts:
                if o.idx == h.idx or o.node is None or o.extra.get('retired'):
                    continue
                if priv(o.node, 'SyncObj', 'raftState') == LEADER:
                    m2 = set(self._member_idx(o))
                    i = m1 & m2
                    q1, q2 = len(m1) // 2 + 1, len(m2) // 2 + 1
                    a, b = len(m1 - m2), len(m2 - m1)
                    if max(0, q1 - a) + max(0, q2 - b) <= len(i):
                        # Not an alarm by itself: a deposed leader of an older term may still hold an older member set;
                        # it cannot commit (its voters have moved to newer terms). What must not happen is that both
                        # DECIDE, which commit_conflict / not_majority / two_leaders judge. Recorded as coverage.
                        w.probe('leaders_with_non_intersecting_member_majorities')

    def _check_snapshot_members(self, h, n):
        """In-memory snapshots: the member set a snapshot stores is the one the common sequence defines at the snapshot's
        position (changes appended after it - committed or not - are not part of it)."""
        import gzip as _gz
        import io as _io
        import pickle as _pk
        ser = priv(n, 'SyncObj', 'serializer')
        if priv(ser, 'Serializer', 'fileName') is not None:
            return
        blob = priv(ser, 'Serializer', 'inMemorySerializedData')
        if blob is None or self.seen_blobs.get(h.idx) == id(blob):
            return
        self.seen_blobs[h.idx] = id(blob)
        if h.extra.get('joiner'):
            return          # a joiner's operator-given member list may be ahead of its log (see the member_set rule)
        try:
            d = _pk.load(_gz.GzipFile(fileobj=_io.BytesIO(bytes(blob))))
        except Exception:
            return          # C09 judges undecodable snapshots
        k = d[1][1]
        if len(d) < 4 or not self._extend_fold(k):
            return
        have = frozenset(i for i in (self.addr_to_idx.get(nd.id) for nd in d[3]) if i is not None)
        want = self.fold[k]
        self.w.probe('snapshot_member_sets_checked')
        if have != want:
            # classification for the known finding (commit-time re-application, see above)
            re = want
            for p in range(2, k + 1):
                dq = self.Gdec.get(p)
                if dq is not None and dq[0] == 'member':
                    re = self._apply_member(re, dq)
            self.flag('member_set_mismatch', 'host %d: its snapshot of position %d stores the member set %r; the membership commands of the common sequence up to %d give %r' % (
                h.idx, k, sorted(have), k, sorted(want)), dict(reapplied_at_commit=(have == re), snapshot=k))

    def on_start(self, host):
        if host.extra.get('joiner'):
            host.extra['start_members'] = frozenset(self.committed_members())
        RaftOracle.on_start(self, host)

    def summary(self):
        s = RaftOracle.summary(self)
        s.update(member_requests=len(self.requests), member_accepted=self.accepted, member_refused=self.refused, member_commits=self.member_commits)
        return s


class MemberTap(object):
    def __init__(self, world, oracle):
        self.w = world
        self.o = oracle

    def on_send(self, src, node, msg, ok):
        pass

    def on_recv(self, dst, node, msg):
        if isinstance(msg, dict) and msg.get('type') == 'response_vote':
            n = self.w.hosts[dst].node
            if n is not None and node not in n.otherNodes:
                self.o.flag('vote_from_non_member_counted', 'host %d received a response_vote from %s which is not in its member set' % (dst, node.id))


class MemberSched(Scheduler):
    def __init__(self, world, rng, cfg):
        Scheduler.__init__(self, world, rng, cfg)
        self.queue = []

    def next_event(self):
        if self.queue:
            return self.queue.pop(0)
        w = self.w
        # operator discipline: a node whose removal has committed (and is applied by a leader) is shut down
        orc = w.oracle
        orc.committed_members()
        for i, p in sorted(orc.removed_committed.items()):
            h = w.hosts[i]
            if h.node is not None and not h.extra.get('retired') and i not in orc.fold[orc.fold_top]:
                if self.rng.random() < 0.2:
                    return [0.0, 'retire', i]
        return Scheduler.next_event(self)

    def extra_choices(self, items):
        w = self.w
        ups = [h.idx for h in w.hosts if h.node is not None]
        if ups:
            items.append((self.s.get('w_member', 0.05), 'member'))

    def build_extra(self, k, dt):
        w, rng = self.w, self.rng
        if k == 'member':
            orc = w.oracle
            cur = set(orc.committed_members())
            ups = [h.idx for h in w.hosts if h.node is not None and not h.extra.get('retired')]
            via = rng.choice(ups)
            spares = [h.idx for h in w.hosts if not h.readonly and h.idx not in cur and not h.extra.get('retired') and not h.extra.get('used')]
            tag = self.next_tag
            self.next_tag += 1
            if spares and (rng.random() < 0.55 or len(cur) <= 1):
                j = rng.choice(spares)
                w.hosts[j].extra['used'] = True
                evs = [[dt, 'join', j], [rng.choice([0.0, 0.01, 0.1]), 'madd', via, j, tag]]
                if rng.random() < self.s.get('p_admin', 0.0):
                    evs[1].append('admin')
                if rng.random() < 0.3:
                    evs.reverse()
                    evs[0][0], evs[1][0] = dt, 0.05
                self.queue = evs[1:]
                return evs[0]
            if len(cur) >= 2:
                j = rng.choice(sorted(cur))
                if rng.random() < self.s.get('p_admin', 0.0):
                    return [dt, 'mrem', via, j, tag, 'admin']
                return [dt, 'mrem', via, j, tag]
            return [dt, 'nop']
        return Scheduler.build_extra(self, k, dt)


class C10Spec(c01.C01Spec):
    churn_share = 0
    prop = PROP
    invariants = INVARIANTS

    def draw(self, rng, tier='quick'):
        cfg = c01.C01Spec.draw(self, rng, tier)
        cfg['n_voters'] = rng.choice([1, 2, 3, 3, 4])
        cfg['n_spare'] = rng.choice([1, 2, 3])
        conf = cfg['conf']
        conf['dynamicMembershipChange'] = True
        conf['dump'] = False
        conf['useFork'] = False
        cfg['placement'] = 'memory'
        s = cfg['sched']
        s['w_member'] = rng.choice([0.02, 0.05, 0.15])
        # share of the membership requests that arrive as admin messages on a utility connection instead of API calls
        s['p_admin'] = rng.choice([0.0, 0.3, 0.6])
        s['w_kill'] = 0.0
        s['w_start'] = 0.0
        s['steps'] = rng.choice([2500, 5000])
        s['w_part'] = rng.choice([0.0, 0.004, 0.01])
        return cfg

    def make_app(self, cfg):
        return MemberApp(cfg)

    def make_oracle(self, world, app):
        return MemberOracle(world, app)

    def make_tap(self, world, oracle):
        return MemberTap(world, oracle)

    def make_sched(self, world, rng, cfg):
        return MemberSched(world, rng, cfg)

    def nontrivial(self, res):
        sm = res['summary']
        return sm.get('member_requests', 0) >= 2 and sm.get('member_commits', 0) >= 1 and (sm.get('leader_changes', 0) >= 2 or sm.get('member_refused', 0) > 0)


SPEC = C10Spec()
run = make_run(SPEC)


def match_known(k, viol, events, cfg):
    m = k.get('match', {})
    d = viol.get('detail') or {}
    if viol['inv'] not in m.get('invariants', []):
        return False
    if m.get('kind') == 'reapplied_at_commit':
        return bool(d.get('reapplied_at_commit'))
    return False
