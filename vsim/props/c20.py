"""C20 A leader cut off from the majority steps down in bounded time; hasQuorum is truthful."""
from .common import *
from . import c01
from ..oracle import INV_PROP, RaftOracle, LEADER
from ..boot import priv, M, HarnessError
from ..workload import KVApp

PROP = 'C20'
LEVEL = 'exploration'
INVARIANTS = ('leader_without_majority_contact', 'success_while_cut_off', 'has_quorum_mismatch')
for _i in INVARIANTS:
    INV_PROP[_i] = PROP
RULE = ('one case = one seeded execution of a 2-5 voter cluster (plus 0-2 read-only nodes) with leaderFallbackTimeout drawn from just above the heartbeat '
        'period to 30 s, in which partitions (clean cuts: crossing pipes frozen both ways from an instant) isolate the leader '
        'from a majority at scheduler-chosen phases relative to heartbeats and replies; the oracle keeps its own record of '
        'when the leader last received any message from each voter; distinct = distinct event/state log digest; non-trivial = '
        'a leader was separated from a majority for longer than the fallback timeout (it was ticked at least once after that)')
COMPONENTS_REAL = REAL_CLUSTER
COMPONENTS_STUB = STUB_CLUSTER
ASSUMPTIONS = ASSUME_CLUSTER + ['static membership; the step-down is evaluated right after each tick of the leader (a node that is not ticked cannot act)',
                                'any received message counts as "heard from" (this only weakens the premise of the oracle)']
BUDGET = dict(quick=dict(runs=640, wall=75, per_run_wall=60), thorough=dict(runs=60000, wall=900, per_run_wall=120))


class C20Tap(object):
    def __init__(self, world, oracle):
        self.w = world
        self.o = oracle

    def on_send(self, src, node, msg, ok):
        pass

    def on_recv(self, dst, node, msg):
        self.o.heard.setdefault(dst, {})[node.id] = self.w.mono()


class C20Oracle(RaftOracle):
    def __init__(self, world, app):
        RaftOracle.__init__(self, world, app)
        self.heard = {}            # host -> {peer id: local time of the last message received}
        self.known_voters = {}     # leader host -> ids of the voters it knew at its previous tick (None: not observed yet)
        self.leader_since = {}     # host -> local time it became leader
        self.cut_epoch = 0
        self.sub_epoch = {}        # tag -> (host, partition epoch, minority?)
        self.long_isolation = 0
        self.check_log_matching = False

    def on_state(self, host, old, new):
        RaftOracle.on_state(self, host, old, new)
        if new == LEADER:
            self.w.cur = host.idx
            self.leader_since[host.idx] = self.w.mono()
            self.known_voters[host.idx] = None

    def _minority(self, i):
        w = self.w
        g = w.groups
        if g is None:
            return False
        voters = [h for h in w.hosts if not h.readonly]
        same = len([h for h in voters if g[h.idx] == g[i]])
        return same <= len(voters) // 2

    def after_event(self, ev, out, touched):
        w = self.w
        k = ev[1]
        if k in ('part', 'heal'):
            self.cut_epoch += 1
        if k == 'sub' and w.groups is not None and self._minority(ev[2]):
            self.sub_epoch[ev[4]] = (ev[2], self.cut_epoch)
        RaftOracle.after_event(self, ev, out, touched)
        for tag, res, err, idx, _pos in w.step_callbacks:
            se = self.sub_epoch.get(tag)
            if se is not None and err == 0 and se[1] == self.cut_epoch and w.groups is not None and self._minority(se[0]):
                self.flag('success_while_cut_off', 'command %r submitted on host %d after it was cut off from the majority got SUCCESS while the cut lasts' % (tag, se[0]))
        if k == 'tick' and touched is not None:
            h = w.hosts[touched]
            n = h.node
            if n is None:
                return
            self._quorum(h, n)
            if n._isLeader():
                self._fallback(h, n, ev)

    def _quorum(self, h, n):
        tr = priv(n, 'SyncObj', 'transport')
        CS = M.tc.CONNECTION_STATE
        others = n.otherNodes
        cnt = 0
        for node in others:
            c = tr._connections.get(node)
            if c is not None and c.state == CS.CONNECTED:
                cnt += 1
        total = len(others) + (0 if h.readonly else 1)
        mine = cnt + (0 if h.readonly else 1)
        expect = mine > total / 2.0
        if bool(n.hasQuorum) != expect:
            self.flag('has_quorum_mismatch', 'host %d reports hasQuorum=%r but %d of %d voters (itself included) have a connected, identified transport connection' % (
                h.idx, n.hasQuorum, mine, total))

    def _fallback(self, h, n, ev):
        w = self.w
        w.cur = h.idx
        timeout = n.conf.leaderFallbackTimeout
        t_start = w.tick_start_mono
        since = self.leader_since.get(h.idx)
        heard = self.heard.setdefault(h.idx, {})
        voters = n.otherNodes
        # a voter that has just become a member of this leader's cluster (a real addition, not a request for an existing
        # member) starts like all voters do at the beginning of a leadership: the leader cannot have heard from it before
        known = self.known_voters.setdefault(h.idx, None)
        ids = set(node.id for node in voters)
        if known is not None:
            for i in ids - known:
                heard[i] = max(heard.get(i, -1e18), w.mono())
                w.probe('voter_added_under_leader')
        self.known_voters[h.idx] = ids
        if known is not None and ids != known:
            # the leader's voter set changed inside this tick (after its own fallback check, which ran with the set it
            # had then): judged from the next tick on
            return
        if since is not None and t_start - since <= timeout:
            return
        cnt = 1
        for node in voters:
            t = heard.get(node.id)
            if t is not None and t >= t_start - timeout - 1e-9:
                cnt += 1
        if cnt <= (len(voters) + 1) / 2.0:
            self.flag('leader_without_majority_contact',
                      'host %d still reports itself leader after a tick started at its local time %.3f: it heard from %d of %d voters within the fallback timeout %.2f s (leader since %.3f)' % (
                          h.idx, t_start, cnt, len(voters) + 1, timeout, since if since is not None else -1))
        # coverage probe: it has been isolated long enough and did step down / still leads
        if w.groups is not None and self._minority(h.idx):
            pass

    def summary(self):
        s = RaftOracle.summary(self)
        return s


class C20App(KVApp):
    def apply_event(self, world, ev):
        if ev[1] == 'maddx':
            # an operator's "ensure membership" retry: add a node that is a member already (answered REQUEST_DENIED)
            h = world.hosts[ev[2]]
            if h.node is None:
                return 'down'
            world.cur = h.idx
            try:
                h.node.addNodeToCluster(world.hosts[ev[3]].addr, callback=lambda res, err: None)
            except Exception as e:
                return 'exc:' + type(e).__name__
            return ('ok', h.idx)
        if ev[1] == 'mremx':
            # a voter is removed from the cluster while it is up and connected (it is shut down once the others have
            # applied the removal): what the remaining nodes report about their quorum counts the voters they know NOW
            h = world.hosts[ev[2]]
            if h.node is None:
                return 'down'
            world.cur = h.idx
            try:
                h.node.removeNodeFromCluster(world.hosts[ev[3]].addr, callback=lambda res, err: None)
            except Exception as e:
                return 'exc:' + type(e).__name__
            world.fault('voter_removed')
            return ('ok', h.idx)
        raise HarnessError('unknown event %r' % (ev,))


class C20Sched(Scheduler):
    def __init__(self, world, rng, cfg):
        Scheduler.__init__(self, world, rng, cfg)
        self.cut_T = None
        self.cut_leader = None
        self.removed = None          # voter whose removal was requested
        self.removed_T = None

    def extra_choices(self, items):
        if self.s.get('w_maddx', 0) > 0:
            ups = [h.idx for h in self.w.hosts if h.node is not None and not h.readonly]
            if len(ups) >= 1:
                items.append((self.s['w_maddx'], 'maddx'))
        if self.s.get('w_mremx', 0) > 0 and self.removed is None and self.w.groups is None and self.leader_idx() is not None and \
                len([h for h in self.w.hosts if not h.readonly and h.node is not None]) >= 3:
            items.append((self.s['w_mremx'], 'mremx'))

    def build_extra(self, k, dt):
        if k == 'mremx':
            w, rng = self.w, self.rng
            lead = self.leader_idx()
            others = [h.idx for h in w.hosts if not h.readonly and h.node is not None and h.idx != lead]
            self.removed = rng.choice(others)
            self.removed_T = w.T
            return [dt, 'mremx', lead, self.removed]
        if k == 'maddx':
            w, rng = self.w, self.rng
            ups = [h.idx for h in w.hosts if h.node is not None and not h.readonly]
            leaders = [i for i in ups if priv(w.hosts[i].node, 'SyncObj', 'raftState') == LEADER]
            via = rng.choice(leaders) if leaders and rng.random() < 0.8 else rng.choice(ups)
            others = [h.idx for h in w.hosts if not h.readonly and h.idx != via]
            if not others:
                return [dt, 'nop']
            return [dt, 'maddx', via, rng.choice(others)]
        return Scheduler.build_extra(self, k, dt)

    def next_event(self):
        w = self.w
        if self.removed is not None and not w.hosts[self.removed].extra.get('retired') and w.hosts[self.removed].node is not None:
            addr = w.hosts[self.removed].addr
            rest = [h for h in w.hosts if h.node is not None and h.idx != self.removed]
            if all(all(nd.id != addr for nd in h.node.otherNodes) for h in rest) or w.T - self.removed_T > 20.0:
                # operator discipline: the removed node is shut down (and stays down)
                w.hosts[self.removed].extra['retired'] = True
                return [0.0, 'kill', self.removed, 1]
        ev = Scheduler.next_event(self)
        if ev[1] == 'part':
            lead = self.leader_idx()
            self.cut_T = w.T
            self.cut_leader = lead
        elif ev[1] == 'heal':
            self.cut_T = None
        elif ev[1] == 'tick' and self.cut_T is not None and ev[2] == self.cut_leader:
            n = w.hosts[ev[2]].node
            if n is not None and w.T - self.cut_T > n.conf.leaderFallbackTimeout * 1.2 and w.oracle._minority(ev[2]):
                w.probe('leader_ticked_after_long_isolation')
        return ev


class C20Spec(c01.C01Spec):
    prop = PROP
    invariants = INVARIANTS

    def draw(self, rng, tier='quick'):
        cfg = c01.C01Spec.draw(self, rng, tier)
        conf = cfg['conf']
        conf['leaderFallbackTimeout'] = rng.choice([0.11, 0.15, 0.3, 0.5, 1.0, 2.0, 5.0, 30.0])
        conf['logCompactionMinEntries'] = 1 << 30
        conf['logCompactionMinTime'] = 1 << 30
        cfg['sched']['w_compact'] = 0.0
        s = cfg['sched']
        s['w_part'] = rng.choice([0.01, 0.03])
        s['w_heal'] = rng.choice([0.005, 0.02, 0.05])
        s['w_hold'] = rng.choice([0.0, 0.02])
        s['w_rst'] = rng.choice([0.0, 0.02])
        s['dts'] = rng.choice([[0.0, 0.0005, 0.002, 0.005, 0.02], [0.0, 0.002, 0.01, 0.05, 0.1]])
        if conf['leaderFallbackTimeout'] >= 5.0:
            s['dts'] = [0.0, 0.005, 0.02, 0.1, 0.3]
        # read-only nodes answer the leader's heartbeats too: they must not count as voters heard from
        cfg['n_ro'] = rng.choice([0, 0, 1, 2])
        if rng.random() < 0.3:
            # membership API in use: requests to add nodes that are members already keep arriving
            conf['dynamicMembershipChange'] = True
            s['w_maddx'] = rng.choice([0.05, 0.2])
            if cfg['n_voters'] >= 3 and rng.random() < 0.5:
                s['w_mremx'] = rng.choice([0.005, 0.02])
        return cfg

    def make_app(self, cfg):
        return C20App(cfg)

    def make_oracle(self, world, app):
        return C20Oracle(world, app)

    def make_tap(self, world, oracle):
        return C20Tap(world, oracle)

    def make_sched(self, world, rng, cfg):
        return C20Sched(world, rng, cfg)

    def nontrivial(self, res):
        return res['probes'].get('leader_ticked_after_long_isolation', 0) > 0


SPEC = C20Spec()
run = make_run(SPEC)
