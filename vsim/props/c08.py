"""C08 File journal == in-memory list for any operation sequence, and is kill-safe.

The real FileJournal / ResizableFile / MetaStorer run on SimFS (no cluster).
Operation sequences are sampled; for every sampled sequence the kill points are
ENUMERATED: before and after every primitive storage op of every operation, plus
a torn variant of every byte-range write.
"""
import random
import hashlib
import time as _time

from ..boot import CTX, M, install, priv, HarnessError
from ..world import World
from ..fs import FS
from ..oracle import INV_PROP

PROP = 'C08'
ENGINE = 'journal'
LEVEL = 'fault_enumeration'
INVARIANTS = ('list_mismatch', 'op_exception', 'reopen_mismatch', 'reopen_failed', 'kill_not_contiguous',
              'kill_lost_kept_entries', 'kill_partial_append', 'kill_bad_commit_index', 'recovered_journal_broken')
for _i in INVARIANTS:
    INV_PROP[_i] = PROP
RULE = ('one case = one seeded sequence of journal operations (add of 0 .. 4x the current file size incl. sizes adjacent to '
        'the growth boundary, deleteEntriesFrom, deleteEntriesTo, clear, setRaftCommitIndex, onOneSecondTimer, close+reopen) '
        'executed on the real FileJournal over SimFS and compared with a Python list after every operation; for every case '
        'ALL kill points are enumerated (before/after each primitive storage op, and a torn prefix of each byte-range write) '
        'and each image is reopened; distinct = distinct digest of (ops, outcomes); non-trivial = the sequence has at least '
        'one delete operation and at least one reopen, and at least one kill image was evaluated inside a delete or a growing add')
COMPONENTS_REAL = ['pysyncobj.journal.FileJournal', 'pysyncobj.journal.ResizableFile', 'pysyncobj.journal.MetaStorer', 'pysyncobj.pickle']
COMPONENTS_STUB = ['open / os.path.exists / mmap / shutil.move (SimFS; the mmap work-alike is compared with the real mmap by ./check selftest)']
ASSUMPTIONS = ['crash model = process kill: completed primitive ops are durable in program order; the interrupted byte-range write '
               'may be absent, complete or a prefix; power loss is out of scope (the library never calls fsync)',
               'creation of a brand-new journal file is not one of the operations C08 lists: kill points start after the first open']
BUDGET = dict(quick=dict(runs=3000, wall=60, per_run_wall=30), thorough=dict(runs=300000, wall=900, per_run_wall=60))
STATE_MEASURE = 'hash of (entry count bucket, file size, free-space bucket, pending meta?) after every operation'
PATH = 'journal'


class Ctx(object):
    """A one-host world without nodes, just to give the seams a current FS."""

    def __init__(self, seed):
        install()
        self.w = World(seed, dict(n_voters=1), None)
        self.w.cur = 0
        CTX.world = self.w
        self.host = self.w.hosts[0]

    @property
    def fs(self):
        return self.host.fs


def open_journal():
    return M.jr.FileJournal(PATH)


def entries_of(j):
    return [(bytes(e[0]), e[1], e[2]) for e in j[:]]


def recover(image):
    """Reopen a durable image in a scratch FS; -> (entries, commit) or raises."""
    w = CTX.world
    host = w.hosts[0]
    saved = host.fs
    scratch = FS(0)
    scratch.restore(image)
    scratch.cost = 0
    host.fs = scratch
    try:
        j = open_journal()
        ents = entries_of(j)
        ci = j.getRaftCommitIndex()
        # the recovered journal is a journal: the process that restarts on this image goes on appending and
        # trimming (whatever the kill left behind - a temporary file of an interrupted trim, a stale header)
        broken = None
        try:
            model = list(ents)
            nxt = (model[-1][1] + 1) if model else 1
            for step in range(3):
                e = (bytes([65 + step]) * (5 + 40 * step), nxt, 3)
                nxt += 1
                j.add(*e)
                model.append(e)
                if step == 0 and len(model) > 1:
                    j.deleteEntriesTo(len(model) // 2)
                    model = model[len(model) // 2:]
                if step == 1 and len(model) > 2:
                    j.deleteEntriesFrom(len(model) - 1)
                    del model[len(model) - 1:]
                if entries_of(j) != model:
                    broken = 'after step %d of the follow-up (add, trim head, add, drop tail, add) the journal holds %d entries, the list %d' % (step, len(j), len(model))
                    break
            if broken is None:
                j._destroy()
                j2 = open_journal()
                if entries_of(j2) != model:
                    broken = 'after the follow-up and a close+reopen the journal holds %d entries, the list %d' % (len(j2), len(model))
        except HarnessError:
            raise
        except Exception as e:
            broken = 'the follow-up (add, trim head, add, drop tail, add, reopen) raised %r' % (e,)
        return ents, ci, broken
    finally:
        host.fs = saved


def contiguous_range(sub, full):
    """indices (i, j) with full[i:j] == sub, or None"""
    n = len(sub)
    if n == 0:
        return (0, 0)
    for i in range(len(full) - n + 1):
        if full[i] == sub[0] and full[i:i + n] == sub:
            return (i, i + n)
    return None


def draw(rng, tier):
    # fs_ubuf: files opened with open(path, 'wb') buffer in user space as CPython does (what is not flushed or closed
    # is not in the file when the process is killed); replay files recorded before this was modelled lack the flag
    return dict(nops=rng.choice([3, 6, 12, 25]), big=rng.random() < 0.5, init=rng.choice([0, 0, 1, 3]), fs_ubuf=True)


def gen_ops(rng, cfg):
    ops = []
    n_est = cfg['init']
    size_est = 1024
    for _ in range(cfg['init']):
        ops.append(['add', rng.choice([0, 5, 40])])
    for _ in range(cfg['nops']):
        r = rng.random()
        if r < 0.45:
            k = rng.random()
            if k < 0.4:
                sz = rng.choice([0, 1, 10, 50, 200])
            elif k < 0.7:
                sz = ['edge', rng.randrange(-30, 31)]      # relative to the free space before growth
            elif cfg['big']:
                sz = ['mult', rng.choice([1.0, 1.5, 2.0, 3.0, 4.0]), rng.randrange(-20, 21)]
            else:
                sz = rng.randrange(0, 600)
            ops.append(['add', sz])
            n_est += 1
        elif r < 0.57:
            ops.append(['delfrom', rng.random()])
        elif r < 0.69:
            ops.append(['delto', rng.random()])
        elif r < 0.73:
            ops.append(['clear'])
        elif r < 0.83:
            ops.append(['commit', rng.randrange(1, 200)])
        elif r < 0.90:
            ops.append(['timer'])
        else:
            ops.append(['reopen'])
    return ops


def execute(seed, cfg, ops, enumerate_kills=True):
    t0 = _time.time()
    C = Ctx(seed)
    fs = C.fs
    fs.cost = 0
    fs.ubuf = bool(cfg.get('fs_ubuf', False))
    viol = []
    dig = hashlib.sha256()
    states = set()
    probes = {}
    faults = {}

    def flag(inv, msg, opno, detail=None):
        for v in viol:
            if v['inv'] == inv:
                return
        viol.append(dict(inv=inv, prop=PROP, msg=msg, evno=opno, detail=detail))

    def probe(k, n=1):
        probes[k] = probes.get(k, 0) + n

    j = open_journal()
    model = []
    commits_set = set([1])
    commit_mem = 1
    next_idx = 1
    kill_images = 0
    in_delete_or_growth = 0
    cur = {}          # description of the operation in progress

    def eval_image(image, when):
        """Check one durable image against the operation in progress."""
        nonlocal kill_images, in_delete_or_growth
        kill_images += 1
        faults['kill_' + when] = faults.get('kill_' + when, 0) + 1
        if cur.get('interesting'):
            in_delete_or_growth += 1
        opno = cur['opno']
        try:
            ents, ci, broken = recover(image)
        except HarnessError:
            raise
        except Exception as e:
            flag('reopen_failed', 'journal image taken %s primitive op #%d of %r cannot be reopened: %r' % (when, cur['k'], cur['op'], e), opno,
                 dict(op=cur['op'], prim=cur.get('prim')))
            return
        pre, keep, new = cur['pre'], cur['keep'], cur.get('new')
        full = pre + ([new] if new is not None else [])
        rng_ = contiguous_range(ents, full)
        if rng_ is None:
            flag('kill_not_contiguous', 'after a kill %s primitive op #%d of %r the reopened journal (%d entries) is not a contiguous range of the %d previous entries' % (
                when, cur['k'], cur['op'], len(ents), len(pre)), opno, dict(op=cur['op'], prim=cur.get('prim'), got=[e[1] for e in ents][:20], pre=[e[1] for e in pre][:20]))
            return
        if new is not None and ents and ents[-1] == new and len(ents) != len(pre) + 1 and rng_[1] == len(full):
            pass
        # everything the operation was meant to keep must be there
        kr = cur['keep_range']
        if kr[1] > kr[0]:
            if not (rng_[0] <= kr[0] and rng_[1] >= kr[1]) or len(ents) == 0:
                flag('kill_lost_kept_entries', 'after a kill %s primitive op #%d of %r the reopened journal holds entries [%d:%d] of the previous %d, but [%d:%d] had to be kept' % (
                    when, cur['k'], cur['op'], rng_[0], rng_[1], len(pre), kr[0], kr[1]), opno, dict(op=cur['op'], prim=cur.get('prim')))
                return
        if ci not in commits_set:
            flag('kill_bad_commit_index', 'after a kill %s primitive op #%d of %r the stored commit index is %r, never set (set: %r)' % (
                when, cur['k'], cur['op'], ci, sorted(commits_set)[:10]), opno)
        if broken:
            flag('recovered_journal_broken', 'after a kill %s primitive op #%d of %r the journal reopens, but %s' % (when, cur['k'], cur['op'], broken), opno,
                 dict(op=cur['op'], prim=cur.get('prim')))

    def hook_before(kind, path, fn, torn):
        # called by the FS wrapper below for every primitive op
        cur['k'] = cur.get('k', 0) + 1
        cur['prim'] = (kind, path)
        if not enumerate_kills or viol:
            return
        eval_image(fs.snapshot(), 'before')
        if torn is not None:
            # torn prefix of this byte-range write, evaluated on a scratch copy
            # the torn closure writes into the live buffer objects: run it, evaluate, undo
            snap_live = dict((k, bytes(v)) for k, v in fs.files.items())
            torn(0.5)
            eval_image(fs.snapshot(), 'torn-inside')
            for k2, v2 in snap_live.items():
                b = fs.files.get(k2)
                if b is not None:
                    b[:] = v2

    # wrap fs.mutate
    orig_mutate = fs.mutate

    def mutate(kind, path, fn, torn=None):
        hook_before(kind, path, fn, torn)
        orig_mutate(kind, path, fn, torn)
    fs.mutate = mutate

    opno = 0
    for op in ops:
        opno += 1
        k = op[0]
        pre = list(model)
        cur.clear()
        cur.update(op=op, opno=opno, pre=pre, k=0, new=None, interesting=False)
        try:
            if k == 'add':
                sz = op[1]
                fsize = len(fs.files[PATH])
                off = priv(j, 'FileJournal', 'currentOffset')
                free = fsize - off
                if isinstance(sz, list):
                    if sz[0] == 'edge':
                        # record = 4 + 16 + size + 4 bytes
                        sz = max(0, free - 24 + sz[1])
                    elif fsize > (1 << 17):
                        sz = 100          # the file has grown enough: keep the run cheap
                    else:
                        sz = max(0, int(fsize * sz[1]) + sz[2])
                e = (random.Random(next_idx * 31 + sz).randbytes(sz), next_idx, next_idx % 7)
                cur.update(keep=pre, keep_range=(0, len(pre)), new=e, interesting=(sz + 24 > free))
                if sz + 24 > free:
                    probe('add_needs_growth')
                if sz + 24 > free + fsize:
                    probe('add_larger_than_one_doubling')
                next_idx += 1
                model.append(e)
                j.add(*e)
            elif k == 'delfrom':
                pos = int(op[1] * (len(model) + 1))
                cur.update(keep=pre[:pos], keep_range=(0, pos), interesting=True)
                del model[pos:]
                j.deleteEntriesFrom(pos)
            elif k == 'delto':
                pos = int(op[1] * (len(model) + 1))
                cur.update(keep=pre[pos:], keep_range=(pos, len(pre)), interesting=True)
                model[:] = model[pos:]
                j.deleteEntriesTo(pos)
            elif k == 'clear':
                cur.update(keep=[], keep_range=(0, 0), interesting=True)
                model[:] = []
                j.clear()
            elif k == 'commit':
                cur.update(keep=pre, keep_range=(0, len(pre)))
                commit_mem = op[1]
                commits_set.add(op[1])
                j.setRaftCommitIndex(op[1])
            elif k == 'timer':
                cur.update(keep=pre, keep_range=(0, len(pre)))
                j.onOneSecondTimer()
            elif k == 'reopen':
                cur.update(keep=pre, keep_range=(0, len(pre)))
                j._destroy()
                j = open_journal()
                got = entries_of(j)
                if got != model:
                    flag('reopen_mismatch', 'after close+reopen the journal holds %d entries, the list %d (first difference at %d)' % (
                        len(got), len(model), _fd(got, model)), opno)
                commit_mem = j.getRaftCommitIndex()
                if commit_mem not in commits_set:
                    flag('kill_bad_commit_index', 'after close+reopen the commit index is %r, never set' % (commit_mem,), opno)
        except HarnessError:
            raise
        except Exception as e:
            flag('op_exception', 'operation %r raised %r' % (op, e), opno)
        if viol:
            break
        # after image of the last primitive op of this operation
        if enumerate_kills and cur.get('k', 0) > 0:
            cur['k'] = cur['k'] + 1
            eval_image(fs.snapshot(), 'after-last')
        # list equivalence
        got = entries_of(j)
        if got != model or len(j) != len(model):
            flag('list_mismatch', 'after %r the journal holds %d entries, the list %d (first difference at %d)' % (op, len(got), len(model), _fd(got, model)), opno)
        elif model and (tuple(j[-1][1:]) != tuple(model[-1][1:]) or tuple(j[0][1:]) != tuple(model[0][1:])):
            flag('list_mismatch', 'after %r first/last element differ' % (op,), opno)
        dig.update(repr((op, len(model), len(fs.files.get(PATH, b'')))).encode())
        states.add(hash((min(len(model), 8), len(fs.files.get(PATH, b'')), priv(j, 'FileJournal', 'currentOffset') * 8 // max(1, len(fs.files.get(PATH, b'x'))))))
        if viol:
            break
    has_del = any(o[0] in ('delfrom', 'delto', 'clear') for o in ops)
    has_reopen = any(o[0] == 'reopen' for o in ops)
    res = dict(seed=seed, cfg=cfg, events=ops, n_events=opno, sim_time=0.0, digest=dig.hexdigest(), violations=viol, cross=[],
               probes=probes, faults=faults, net={}, summary=dict(kill_images=kill_images, ops=opno, kill_images_in_delete_or_growth=in_delete_or_growth),
               n_tick_exc=0, tick_exc=[], states=states, aborted=None, wall=_time.time() - t0,
               nontrivial=bool(has_del and has_reopen and in_delete_or_growth > 0), exhaustive=None)
    CTX.world = None
    return res


def _fd(a, b):
    for i in range(min(len(a), len(b))):
        if a[i] != b[i]:
            return i
    return min(len(a), len(b))


def run(seed, tier, cfg=None, events=None):
    rng = random.Random(seed)
    if cfg is None:
        cfg = draw(rng, tier)
    if events is None:
        events = gen_ops(rng, cfg)
    return execute(seed, cfg, events)


def fixed_prefix(events):
    return 0
