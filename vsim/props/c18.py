"""C18 Read-only nodes follow but never influence the cluster."""
from .common import *
from . import c01, c05
from ..oracle import INV_PROP, RaftOracle, LEADER, CANDIDATE
from ..boot import priv

PROP = 'C18'
LEVEL = 'exploration'
OWN = ('observer_voted', 'observer_requested_vote', 'observer_candidate_or_leader', 'observer_not_converged', 'observer_counted',
       'voter_tick_exception')
INVARIANTS = OWN + ('not_majority', 'two_leaders', 'cb_twice', 'success_not_committed', 'success_wrong_result',
                    'failed_but_committed', 'dup_in_G', 'state_mismatch')
for _i in OWN:
    INV_PROP[_i] = PROP
RULE = ('one case = one seeded execution of a 2-5 voter cluster plus 1-3 read-only nodes (own address None) that join, are '
        'stopped and re-join at scheduler-chosen times under the C01 schedule space, including partitions that leave the voters '
        'without a majority; commands are also submitted through the read-only nodes; election and commit majorities are '
        'recomputed by the oracle over voters only (an observer that was counted shows up as a false majority); distinct = '
        'distinct event/state log digest; non-trivial = at least one read-only node was connected while an election or a commit '
        'happened and at least one command was submitted through a read-only node')
COMPONENTS_REAL = REAL_CLUSTER
COMPONENTS_STUB = STUB_CLUSTER
ASSUMPTIONS = ASSUME_CLUSTER + ['read-only nodes keep no durable state: a re-joining observer is a fresh process']
BUDGET = dict(quick=dict(runs=480, wall=80, per_run_wall=60), thorough=dict(runs=40000, wall=900, per_run_wall=120))


class C18Tap(object):
    def __init__(self, world, oracle):
        self.w = world
        self.o = oracle

    def on_send(self, src, node, msg, ok):
        if not isinstance(msg, dict):
            return
        h = self.w.hosts[src]
        t = msg.get('type')
        if h.readonly:
            if t == 'response_vote':
                self.o.flag('observer_voted', 'read-only host %d sent a response_vote for term %r' % (src, msg.get('term')))
            elif t == 'request_vote':
                self.o.flag('observer_requested_vote', 'read-only host %d sent a request_vote' % src)
        if t == 'apply_command' and h.readonly:
            self.w.probe('forwarded_from_observer')

    def on_recv(self, dst, node, msg):
        if isinstance(msg, dict) and msg.get('type') == 'response_vote':
            # a vote arriving from a node that is not a voter of the receiver
            h = self.w.hosts[dst]
            n = h.node
            if n is not None and node not in n.otherNodes:
                self.o.flag('observer_counted', 'host %d received a response_vote from %s which is not one of its voters' % (dst, node.id))


class C18Oracle(RaftOracle):
    def after_event(self, ev, out, touched):
        w = self.w
        if ev[1] == 'tick' and isinstance(out, str) and out.startswith('exc:') and w.tick_exc:
            e = w.tick_exc[-1]
            h = w.hosts[e[1]]
            if not h.readonly:
                # read-only nodes never influence the cluster: whatever they do (join, lag, leave in the middle of a
                # transfer), a voter's tick must not be aborted by an exception
                self.flag('voter_tick_exception', 'an exception escaped the tick of voter %d in a cluster with read-only nodes: %s at %s' % (e[1], e[2], e[3]),
                          dict(origin=e[3]))
        RaftOracle.after_event(self, ev, out, touched)

    def on_state(self, host, old, new):
        if host.readonly and new in (CANDIDATE, LEADER):
            self.flag('observer_candidate_or_leader', 'read-only host %d entered state %d' % (host.idx, new))
        RaftOracle.on_state(self, host, old, new)
        if new in (CANDIDATE, LEADER):
            for h in self.w.hosts:
                if h.readonly and h.node is not None and len(priv(h.node, 'SyncObj', 'connectedNodes')) > 0:
                    self.w.probe('observer_connected_during_election')
                    break

    def _record_commits(self, host, node, log, v, commit, state, term, fresh=False):
        before = self.commits
        RaftOracle._record_commits(self, host, node, log, v, commit, state, term, fresh)
        if self.commits > before:
            for h in self.w.hosts:
                if h.readonly and h.node is not None and len(priv(h.node, 'SyncObj', 'connectedNodes')) > 0:
                    self.w.probe('observer_connected_during_commit')
                    break


class C18Sched(Scheduler):
    def _may_kill(self):
        return True

    def next_event(self):
        ev = Scheduler.next_event(self)
        if ev[1] == 'kill':
            # only observers leave and re-join (voters keep their memory in this property)
            ros = [h.idx for h in self.w.hosts if h.readonly and h.node is not None]
            if not ros:
                return [ev[0], 'nop']
            ev[2] = self.rng.choice(ros)
            self.w.fault('observer_stopped')
        return ev


class C18Spec(c01.C01Spec):
    prop = PROP
    guide_share = 0
    # (an application callback that raises while it is told of a failure leaves the tick too - not the doing of a
    # read-only node; such workloads belong to C01/C02)
    cb_raise_share = 0
    invariants = INVARIANTS

    def draw(self, rng, tier='quick'):
        cfg = c01.C01Spec.draw(self, rng, tier)
        cfg['n_ro'] = rng.choice([1, 1, 2, 3])
        s = cfg['sched']
        s['w_kill'] = rng.choice([0.0, 0.01, 0.03])
        s['w_start'] = rng.choice([0.05, 0.3])
        s['w_sub_ro'] = 1.0
        s['w_part'] = rng.choice([0.004, 0.01])
        s['steps'] = rng.choice([2000, 4000])
        return cfg

    def make_oracle(self, world, app):
        return C18Oracle(world, app)

    def make_tap(self, world, oracle):
        return C18Tap(world, oracle)

    def make_sched(self, world, rng, cfg):
        return C18Sched(world, rng, cfg)

    def quiet(self, w, orc, sch, apply):
        for h in w.hosts:
            if h.node is None:
                apply([0.0, 'start', h.idx])
        before = len(orc.violations)
        c05.SPEC.quiet(w, orc, sch, apply)
        for v in orc.violations[before:]:
            if v.inv in c05.INVARIANTS:
                orc.flag('observer_not_converged', 'after the quiet period: %s' % v.msg, v.detail)
                break

    def nontrivial(self, res):
        p = res['probes']
        return (p.get('observer_connected_during_election', 0) + p.get('observer_connected_during_commit', 0)) > 0 and p.get('forwarded_from_observer', 0) > 0


SPEC = C18Spec()
run = make_run(SPEC)
