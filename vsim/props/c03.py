"""C03 One leader per term; a new leader already holds all committed commands."""
from .common import *
from . import c01

PROP = 'C03'
LEVEL = 'exploration'
INVARIANTS = ('two_leaders', 'leader_incomplete', 'double_vote')
RULE = ('one case = one seeded execution of a 2-5 voter cluster with independent node clocks (rates 0.9-1.1), short election '
        'timeouts, delayed and lost vote requests/replies (resets, holds), partitions and heals timed around elections; '
        'leadership is sampled after every event and from onStateChanged; votes are taken from the message tap; distinct = '
        'distinct event/state log digest; non-trivial = at least 3 terms had a candidate and at least one partition, hold or '
        'reset happened and at least 2 leaderships were established')
COMPONENTS_REAL = REAL_CLUSTER
COMPONENTS_STUB = STUB_CLUSTER
ASSUMPTIONS = ASSUME_CLUSTER + ['static membership, no node loses its memory (C07 covers restarts, C10 membership)']
BUDGET = dict(quick=dict(runs=640, wall=75, per_run_wall=60), thorough=dict(runs=60000, wall=900, per_run_wall=120))


class VoteTap(object):
    """Message tap: a voter sends at most one response_vote per term (to one candidate)."""

    def __init__(self, world, oracle):
        self.w = world
        self.o = oracle
        self.votes = {}        # (voter, term) -> candidate id

    def on_send(self, src, node, msg, ok):
        if isinstance(msg, dict) and msg.get('type') == 'response_vote':
            k = (src, msg['term'])
            prev = self.votes.get(k)
            if prev is not None and prev != node.id:
                self.o.flag('double_vote', 'host %d granted its vote in term %d to %s and to %s' % (src, msg['term'], prev, node.id))
            self.votes[k] = node.id
            self.w.probe('votes_granted')

    def on_recv(self, dst, node, msg):
        pass


class C03Spec(c01.C01Spec):
    prop = PROP
    invariants = INVARIANTS

    def draw(self, rng, tier='quick'):
        cfg = c01.C01Spec.draw(self, rng, tier)
        conf = cfg['conf']
        tmin = rng.choice([0.35, 0.35, 0.4])
        conf['raftMinTimeout'] = tmin
        conf['raftMaxTimeout'] = tmin + rng.choice([0.05, 0.2, 0.5])
        conf['connectionTimeout'] = max(conf['raftMaxTimeout'], rng.choice([1.0, 3.5]))
        conf['leaderFallbackTimeout'] = rng.choice([0.5, 2.0, 30.0])
        cfg['clock_rates'] = [rng.choice([0.9, 0.95, 1.0, 1.05, 1.1]) for _ in range(8)]
        s = cfg['sched']
        s['w_part'] = rng.choice([0.004, 0.01, 0.02])
        s['w_heal'] = rng.choice([0.02, 0.05])
        s['w_hold'] = rng.choice([0.02, 0.06])
        s['w_rst'] = rng.choice([0.02, 0.06])
        s['w_stall'] = rng.choice([0.0, 0.01, 0.03])
        s['dts'] = [0.0, 0.0005, 0.002, 0.005, 0.02, 0.05]
        return cfg

    def make_tap(self, world, oracle):
        return VoteTap(world, oracle)

    def nontrivial(self, res):
        sm = res['summary']
        f = res['faults']
        return (sm.get('terms_with_candidate', 0) >= 3 and sm['leader_changes'] >= 2 and
                (f.get('partition', 0) + f.get('hold_pipe', 0) + f.get('reset', 0)) > 0)


SPEC = C03Spec()
run = make_run(SPEC)
