"""C11 Arguments of any size and shape arrive intact on every replica.

This property quantifies over inputs and configurations; the simulator's job is
to push them through the real stack (pickling, chunking, framing, journaling,
apply) under several socket capacities on a benign schedule.
"""
import random as _random

from .common import *
from ..oracle import RaftOracle, INV_PROP
from ..workload import KVApp, payload
from ..boot import M, priv

PROP = 'C11'
LEVEL = 'exploration'
INVARIANTS = ('arg_mismatch', 'tick_exception', 'not_applied_everywhere', 'applied_twice', 'submit_exception', 'sent_entry_not_in_log')
for _i in INVARIANTS:
    INV_PROP[_i] = PROP
RULE = ('one case = one benign-schedule execution of a 2-3 voter cluster in which every command is echo(tag, *args, **kwargs) '
        'with arguments built from (shape, size); grid cases enumerate, for one (batch size B, k, journal mode, batch mode), '
        'ALL argument sizes k*B-64 .. k*B+64; random cases draw shapes (bytes, str, nested containers, kwargs only, empty) and '
        'sizes; distinct = distinct event/state log digest; non-trivial = at least one argument size lies within 64 bytes of a '
        'multiple of the batch size or exceeds the batch size, and all commands were applied on every replica')
COMPONENTS_REAL = REAL_CLUSTER
COMPONENTS_STUB = STUB_CLUSTER
ASSUMPTIONS = ASSUME_CLUSTER + ['benign schedule: no faults, small latencies (the property is about inputs/configurations); the only '
                                'fault, in a marked share of the random cases, is the loss of the connection that carries a chunked entry']
BATCHES = [1, 7, 64, 200, 1024, 4096, 65536]
BUDGET = dict(quick=dict(runs=176, wall=80, per_run_wall=70), thorough=dict(runs=1200, wall=900, per_run_wall=200))
MINIMISE = True


def grid_cases(tier):
    """(B, k, journal, batchmode) for the boundary grid."""
    out = []
    for B in BATCHES:
        if tier == 'quick' and B > 4096:
            continue
        for k in (1, 2, 3, 4):
            for journal in (False, True):
                for usebatch in (True, False):
                    if tier == 'quick' and B >= 1024 and (journal != usebatch):
                        continue
                    out.append((B, k, journal, usebatch))
    return out


def build_args(tag, shape, size):
    r = _random.Random(tag * 31 + size)
    if shape == 'bytes':
        return (payload(tag, size),), {}
    if shape == 'zbytes':
        return (payload(tag, size, True),), {}
    if shape == 'str':
        return (''.join(chr(97 + r.randrange(26)) for _ in range(size)),), {}
    if shape == 'ustr':
        return (''.join(chr(r.choice([0x61, 0xe9, 0x4e2d, 0x1f600])) for _ in range(max(0, size // 3))),), {}
    if shape == 'empty':
        return (), {}
    if shape == 'kwonly':
        return (), {'a': payload(tag, size // 2), 'b': list(range(size % 17))}
    if shape == 'nested':
        n = max(1, size // 40)
        return ([{'k%d' % i: (i, [payload(tag + i, 7), None, 1.5, {'x': set([i, i + 1])}])} for i in range(n)],), {'kw': (1, 2)}
    if shape == 'mixed':
        return (payload(tag, size // 3), 'x' * (size // 3)), {'z': payload(tag + 1, size // 3)}
    if shape == 'ints':
        return tuple(range(size % 50)), {}
    raise ValueError(shape)


class C11App(KVApp):
    def submit_other(self, world, host, args, cb):
        meth, tag, shape, size = args[0], args[1], args[2], args[3]
        a, kw = build_args(tag, shape, size)
        host.node.echo(tag, *a, callback=cb, **kw)
        return 'ok'


class C11Oracle(RaftOracle):
    def __init__(self, world, app):
        RaftOracle.__init__(self, world, app)
        self.shapes = {}           # tag -> (shape, size)
        self.execs = {}            # (host, inc, tag) -> count
        self.check_log_matching = False

    def after_event(self, ev, out, touched):
        w = self.w
        if ev[1] == 'sub' and ev[3] == 'echo':
            self.shapes[ev[4]] = (ev[5], ev[6])
            if isinstance(out, str) and out.startswith('exc:'):
                self.flag('submit_exception', 'submitting echo(tag=%d, shape=%s, size=%d) raised %s' % (ev[4], ev[5], ev[6], out))
        if ev[1] == 'tick' and isinstance(out, str) and out.startswith('exc:'):
            e = w.tick_exc[-1]
            self.flag('tick_exception', 'exception escaped _onTick on host %d: %s at %s' % (e[1], e[2], e[3]),
                      dict(origin=e[3]))
        for (idx, inc, pos, tag, extra) in w.step_applies:
            k = (idx, inc, tag)
            self.execs[k] = self.execs.get(k, 0) + 1
            if self.execs[k] > 1:
                self.flag('applied_twice', 'host %d executed command %d twice' % (idx, tag))
            sh = self.shapes.get(tag)
            if sh is not None and extra is not None:
                a, kw = build_args(tag, sh[0], sh[1])
                if extra[0] != a or extra[1] != kw:
                    self.flag('arg_mismatch', 'host %d executed command %d (shape %s size %d) with different arguments' % (idx, tag, sh[0], sh[1]))
        RaftOracle.after_event(self, ev, out, touched)


class C11Sched(Scheduler):
    """Benign schedule: one command at a time; after each submission, rounds of
    (tick every node in a drawn order, deliver everything, possibly fragmented) until the
    command is applied on every replica.  Fragment sizes, tick order and the submitting
    node are drawn from the run's PRNG."""

    def __init__(self, world, rng, cfg):
        Scheduler.__init__(self, world, rng, cfg)
        self.plan = list(cfg['plan'])
        self.queue = []
        self.waiting = None        # tag being waited for
        self.rounds = 0
        self.max_rounds = cfg['sched'].get('c11_rounds', 600)
        self.retries = 0
        self.linkloss = bool((cfg.get('case') or {}).get('linkloss'))
        self.resets_left = 0
        self.reset_since_sub = False
        self.unacked_rounds = 0
        self.forwarded = False

    def _round(self):
        w, rng = self.w, self.rng
        order = [h.idx for h in w.hosts if h.node is not None]
        rng.shuffle(order)
        q = []
        first = True
        for i in order:
            q.append([0.01 if first else 0.0, 'tick', i])
            first = False
        for cid in list(w.net.pending):
            q.append([0.0, 'conn', cid, 'ok'])
        return q

    def _applied_everywhere(self, tag):
        orc = self.w.oracle
        if tag is not None and tag not in orc.Gtag:
            return False
        top = max(orc.G) if orc.G else 1
        for h in self.w.hosts:
            if h.node is not None and h.node.raftLastApplied < top:
                return False
        return True

    def _in_no_log(self, tag):
        # every log entry of every node is applied and the command is not among the applied ones: no log holds it
        if tag in self.w.oracle.Gtag:
            return False
        for h in self.w.hosts:
            n = h.node
            if n is not None and n._SyncObj__raftLog[-1][1] != n.raftLastApplied:
                return False
        return True

    def next_event(self):
        w, rng = self.w, self.rng
        if self.queue:
            return self.queue.pop(0)
        live = w.net.live_pipes()
        if self.linkloss and self.resets_left > 0 and live and rng.random() < 0.2:
            # link-loss cases: the connection that carries a chunked entry is reset while the follower holds a part
            # of it (chunks received, the last one not yet); the entry has to arrive intact all the same
            for h in w.hosts:
                n = h.node
                if n is None or not priv(n, 'SyncObj', 'recvTransmission'):
                    continue
                lead = self.leader_idx()
                for cid, c in w.net.conns.items():
                    if lead is not None and set((c.chost, c.shost)) == set((lead, h.idx)):
                        self.resets_left -= 1
                        self.reset_since_sub = True
                        w.probe('reset_inside_chunked_entry')
                        return [0.0, 'rst', cid, rng.randrange(2)]
        if live:
            # drain what is in flight (possibly in fragments) before the next round
            pid = rng.choice(live)
            return [0.0, 'dlv', pid, rng.choice(self.s['dlv_sizes'])]
        lead = self.leader_idx()
        ready = lead is not None and self._applied_everywhere(None)
        if self.waiting is not None:
            done = self._applied_everywhere(self.waiting)
            cb = w.oracle.cbs.get(self.waiting)
            if done and not cb and self.reset_since_sub:
                # the leader's reply to a forwarded command travelled on the connection that was reset: the forwarding
                # node keeps waiting for it until the leader changes.  Every replica has executed the command - that is
                # all C11 states; "at most once" for the callback is C02's - so after a grace of 50 rounds go on
                self.unacked_rounds += 1
                if self.unacked_rounds > 50:
                    w.probe('reply_lost_with_reset_link')
                    self.waiting = None
                    self.rounds = 0
                    self.unacked_rounds = 0
                    return self.next_event()
            if not cb and self.reset_since_sub and self.forwarded and self._in_no_log(self.waiting):
                # a forwarded command was on its way to the leader on the connection that was reset: it is in no log,
                # nobody will ever execute or acknowledge it (8.4) - no replica executes it with other arguments or
                # twice, which is what C11 states; after a grace of 300 rounds go on
                self.unacked_rounds += 1
                if self.unacked_rounds > 300:
                    w.probe('forwarded_command_lost_with_reset_link')
                    self.waiting = None
                    self.rounds = 0
                    self.unacked_rounds = 0
                    return self.next_event()
            if done and cb:
                self.waiting = None
                self.rounds = 0
            elif cb and cb[0][1] != 0 and self.waiting not in w.oracle.Gtag:
                # reported failed (e.g. no leader yet): permitted; go on with the next command
                w.probe('submission_reported_failed')
                self.waiting = None
                self.rounds = 0
            else:
                self.rounds += 1
                if self.rounds > self.max_rounds:
                    sh = w.oracle.shapes.get(self.waiting)
                    w.oracle.flag('not_applied_everywhere',
                                  'command %d %r not applied on every replica (and acknowledged) after %d benign rounds' % (self.waiting, sh, self.rounds),
                                  dict(applied=[h.node.raftLastApplied for h in w.hosts if h.node], committed=self.waiting in w.oracle.Gtag))
                    return None
                self.queue = self._round()
                return self.queue.pop(0)
        if not ready:
            self.rounds += 1
            if self.rounds > self.max_rounds:
                w.probe('no_leader_in_benign_run')
                return None
            self.queue = self._round()
            return self.queue.pop(0)
        if not self.plan:
            return None
        shape, size = self.plan.pop(0)
        ups = [h.idx for h in w.hosts if h.node is not None]
        i = lead if rng.random() < 0.7 else rng.choice(ups)
        tag = self.next_tag
        self.next_tag += 1
        self.nsubs += 1
        self.waiting = tag
        self.rounds = 0
        self.resets_left = rng.choice([1, 1, 2, 3]) if self.linkloss else 0
        self.reset_since_sub = False
        self.unacked_rounds = 0
        self.forwarded = i != lead
        return [0.0, 'sub', i, 'echo', tag, shape, size]


class C11Spec(Spec):
    prop = PROP
    invariants = INVARIANTS

    def draw(self, rng, tier='quick'):
        grid = grid_cases(tier)
        k = rng.getrandbits(30)
        cfg = draw_common(rng, nv=rng.choice([2, 3, 3]), compaction=False, small_batches=False)
        conf = cfg['conf']
        cfg['clock_rates'] = None
        cfg['short_write'] = False
        cfg['cpu_cost'] = 1e-4
        s = cfg['sched']
        idx = cfg_index(rng)
        if idx < len(grid):
            B, kk, journal, usebatch = grid[idx]
            plan = [('bytes', max(0, kk * B + d)) for d in range(-64, 65)]
            cfg['case'] = dict(kind='grid', B=B, k=kk)
        else:
            B = rng.choice(BATCHES if tier == 'thorough' else BATCHES[:-1] + [BATCHES[-1]] * 0 + [4096])
            journal = rng.random() < 0.5
            usebatch = rng.random() < 0.5
            plan = []
            for _ in range(rng.choice([20, 40, 60])):
                shape = rng.choice(['bytes', 'zbytes', 'str', 'ustr', 'empty', 'kwonly', 'nested', 'mixed', 'ints'])
                size = rng.choice([0, 1, rng.randrange(0, 200), rng.randrange(0, 5 * B + 200),
                                   max(0, rng.choice([1, 2, 3, 4]) * B + rng.randrange(-64, 65))])
                size = min(size, 300000)
                plan.append((shape, size))
            cfg['case'] = dict(kind='random', B=B)
        conf['appendEntriesBatchSizeBytes'] = B
        conf['appendEntriesUseBatch'] = usebatch
        conf['journal'] = journal
        conf['commandsWaitLeader'] = True
        cfg['cap'] = rng.choice([1 << 16, 1 << 12, 1 << 20, 300])
        if B < 64:
            # one-byte chunks: an entry becomes hundreds of messages (tens of KiB on the wire, re-sent on every
            # heartbeat); a 300-byte socket moves one buffer per tick in this engine and never catches up
            cfg['cap'] = max(cfg['cap'], 1 << 12)
        # one message of the biggest planned size has to cross the link well within an election time-out (the schedule
        # moves one socket capacity per 10 ms round): behind a 300-byte socket a 64 KiB entry blocks the heartbeats for
        # seconds, the follower campaigns and nothing ever completes - bandwidth is a premise here, not the subject
        biggest = max([sz for _, sz in plan] + [0]) + 1000
        cfg['cap'] = max(cfg['cap'], min(1 << 20, min(biggest, B + 1000) // 10))
        if idx >= len(grid) and rng.random() < 0.12:
            # slow link, big argument: the entry travels in chunks of 1 KiB behind a 300-byte socket for longer than
            # connectionTimeout as a whole, while every single chunk crosses well within an election time-out
            B = 1024
            conf['appendEntriesBatchSizeBytes'] = B
            conf['connectionTimeout'] = 3.5
            plan = [('bytes', 100), ('zbytes' if rng.random() < 0.3 else 'bytes', rng.choice([60, 100, 140]) * B), ('bytes', 7)]
            cfg['cap'] = 300
            cfg['case'] = dict(kind='slow', B=B)
            s['c11_rounds'] = 4000
            s['dlv_sizes'] = [0]
        cfg['plan'] = plan
        s['dlv_sizes'] = rng.choice([[0], [0, 0, 0, 64, 1000], [0, 0, 1, 7, 300]])
        if idx >= len(grid) and cfg['case']['kind'] == 'random' and rng.random() < 0.3:
            # link loss inside chunked entries (the only fault of such a run): the byte stream is delivered in
            # fragments so that there are instants between the chunks of one entry
            cfg['case']['linkloss'] = True
            conf['connectionRetryTime'] = rng.choice([0, 0.2, 0.5])
            s['dlv_sizes'] = rng.choice([[0, 64, 300, 1000], [17, 64, 300], [0, 0, 300, 1000]])
            s['c11_rounds'] = 3000
        s['steps'] = 1 << 30
        s['quiet_rounds'] = 0
        return cfg

    def make_app(self, cfg):
        return C11App(cfg)

    def make_oracle(self, world, app):
        return C11Oracle(world, app)

    def make_sched(self, world, rng, cfg):
        return C11Sched(world, rng, cfg)

    def after_replay(self, w, orc):
        # `not_applied_everywhere` is a verdict of the scheduler (it gives up after max_rounds benign rounds), which a
        # replay does not run: re-derive it from the replayed history - the last submission, the benign rounds that
        # followed it (each begins with the one tick that advances the clock by 10 ms) and the state reached
        if orc.violations or w.net.live_pipes() or w.net.pending:
            return      # (the scheduler gives its verdict only when nothing is in flight and no connect is pending)
        last = None
        for n, ev in enumerate(w.trace):
            if ev[1] == 'sub':
                last = n
        if last is None:
            return
        tag = w.trace[last][4]
        rounds = sum(1 for ev in w.trace[last + 1:] if ev[1] == 'tick' and ev[0] == 0.01)
        max_rounds = w.cfg['sched'].get('c11_rounds', 600)
        sch = C11Sched(w, _random.Random(0), w.cfg)
        cb = orc.cbs.get(tag)
        if sch._applied_everywhere(tag) and cb:
            return
        if cb and cb[0][1] != 0 and tag not in orc.Gtag:
            return
        if sch._applied_everywhere(tag) and any(ev[1] == 'rst' for ev in w.trace[last + 1:]):
            return      # executed everywhere, the reply was lost with a reset link (see C11Sched.next_event)
        if not cb and sch._in_no_log(tag) and any(ev[1] == 'rst' for ev in w.trace[last + 1:]):
            return      # lost on its way to the leader with a reset link (see C11Sched.next_event)
        if rounds >= max_rounds:
            sh = orc.shapes.get(tag)
            orc.flag('not_applied_everywhere',
                     'command %d %r not applied on every replica (and acknowledged) after %d benign rounds' % (tag, sh, rounds + 1),
                     dict(applied=[h.node.raftLastApplied for h in w.hosts if h.node], committed=tag in orc.Gtag))

    def nontrivial(self, res):
        c = res['cfg']
        B = c['conf']['appendEntriesBatchSizeBytes']
        hit = any(sz > B or min(sz % B, B - sz % B) <= 64 for _, sz in c['plan'])
        return hit and res['summary']['applies'] >= len(c['plan']) * 0.9


_cursor = {'n': 1 << 30}
# a verdict about the benign schedule as a whole (every round ticks every node, completes every connect, delivers
# everything): a trace with events removed is another schedule, about which the verdict says nothing
NO_MINIMISE_INVS = ('not_applied_everywhere',)
WANTS_K = True


def cfg_index(rng):
    return _cursor['n']


SPEC = C11Spec()


def run(seed, tier, cfg=None, events=None, k=None):
    """k = index of the run in its batch: the first len(grid) runs enumerate the boundary
    grid completely, later ones draw random shapes and sizes."""
    _cursor['n'] = k if k is not None else (1 << 30)
    res = run_cluster(seed, SPEC, cfg=cfg, events=events, tier=tier)
    res['extra'] = dict(case=res['cfg'].get('case'))
    return res
