"""C16 Replicated locks are mutually exclusive and always eventually obtainable.

Tick engine + cooperative sleepers: every ReplLockManager starts its real
_autoAcquireThread; with batteries.threading/time rebound, that thread runs only
while it holds the baton: from one time.sleep(0.1) to the next, as one scheduler
event ('lm' k).  Exactly one thread runs at any time, so runs are deterministic.
"""
import threading as _threading

from .common import *
from . import c01, c05
from ..oracle import INV_PROP, RaftOracle, log_of
from ..workload import KVApp, get_classes
from ..boot import CTX, M, install, priv, HarnessError

PROP = 'C16'
ENGINE = 'tick+sleepers'
LEVEL = 'exploration'
OWN = ('two_holders', 'late_acquire_reported_success', 'late_acquirer_keeps_lock', 'lock_not_obtainable_after_holder_stopped',
       'lock_table_mismatch')
INVARIANTS = OWN + ('state_mismatch',)
for _i in OWN:
    INV_PROP[_i] = PROP
RULE = ('one case = one seeded execution of a 2-4 voter cluster in which every node hosts one ReplLockManager client (real '
        'prolongation thread as a cooperative sleeper) on a common virtual wall clock; events: tryAcquire / release of 2 lock '
        'ids from any client, prolongation wake-ups at scheduler-chosen times (never earlier than the sleep asked for), client '
        'stop (no more prolongation), commit delays, holds, partitions, leader changes; the lock table of every replica is '
        'compared with a reference table replayed over the common sequence; distinct = distinct event/state log digest; '
        'non-trivial = at least 2 clients contended for one lock id and at least one expiry or late acquisition happened')
COMPONENTS_REAL = REAL_CLUSTER + ['pysyncobj.batteries.ReplLockManager (incl. its _autoAcquireThread) and _ReplLockManagerImpl']
COMPONENTS_STUB = STUB_CLUSTER + ['batteries.threading.Thread: a real thread that runs only between two time.sleep() calls, released by the scheduler']
ASSUMPTIONS = ASSUME_CLUSTER + ['client clocks agree (common virtual wall clock), as the property states',
                                'a sleeping prolongation thread may oversleep arbitrarily but never wakes early']
BUDGET = dict(quick=dict(runs=480, wall=80, per_run_wall=60), thorough=dict(runs=40000, wall=900, per_run_wall=120))
LOCKS = ['A', 'B']


# ---------------------------------------------------------------------------------------------
# cooperative sleeper threads
# ---------------------------------------------------------------------------------------------
class CoopThread(object):
    """Stands in for threading.Thread inside pysyncobj.batteries."""
    current = None

    def __init__(self, target=None, args=(), kwargs=None):
        self.target, self.args, self.kwargs = target, args, kwargs or {}
        self.go = _threading.Semaphore(0)
        self.back = _threading.Semaphore(0)
        self.done = False
        self.wake_at = 0.0
        self.real = None
        self.host = CTX.world.cur if CTX.world is not None else None
        self.exc = None

    def _run(self):
        CoopThread.current = self
        try:
            self.target(*self.args, **self.kwargs)
        except BaseException as e:      # noqa
            self.exc = e
        finally:
            self.done = True
            CoopThread.current = None
            self.back.release()

    def start(self):
        w = CTX.world
        if w is not None:
            w.hosts[w.cur].extra.setdefault('sleepers', []).append(self)
        self.real = _threading.Thread(target=self._run)
        self.real.daemon = True
        self.real.start()
        self.back.acquire()          # until its first sleep (or its end)

    def is_alive(self):
        return not self.done

    def join(self, timeout=None):
        pass

    # called from the thread itself (time.sleep shim)
    def park(self, d):
        w = CTX.world
        self.wake_at = (w.T if w is not None else 0.0) + max(0.0, d)
        CoopThread.current = None
        self.back.release()
        self.go.acquire()
        CoopThread.current = self

    # called by the scheduler event
    def resume(self):
        if self.done:
            return False
        self.go.release()
        self.back.acquire()
        return True


class _ThreadingShim(object):
    Thread = CoopThread
    Event = _threading.Event
    Lock = _threading.Lock

    @staticmethod
    def current_thread():
        return _threading.current_thread()


class _BattTime(object):
    @staticmethod
    def time():
        return CTX.world.wall()

    @staticmethod
    def sleep(d):
        t = CoopThread.current
        if t is not None and _threading.current_thread() is t.real:
            t.park(d)
        else:
            CTX.world.sleep(d)


def install_batteries_seams():
    install()
    M.bt.threading = _ThreadingShim
    M.bt.time = _BattTime


# ---------------------------------------------------------------------------------------------
# reference lock table
# ---------------------------------------------------------------------------------------------
class LockModel(object):
    INIT = ()

    def __init__(self, unlock):
        self.unlock = unlock

    def step(self, state, name, args):
        locks = dict(state)
        res = None
        if name == 'acquire':
            lid, cid, t = args
            ex = locks.get(lid)
            if ex is not None and t - ex[1] > self.unlock:
                ex = None
            if ex is None or ex[0] == cid:
                locks[lid] = (cid, t)
                res = True
            else:
                res = False
        elif name == 'prolongate':
            cid, t = args
            for lid in list(locks):
                c, lt = locks[lid]
                if t - lt > self.unlock:
                    del locks[lid]
                elif c == cid:
                    locks[lid] = (cid, t)
        elif name == 'release':
            lid, cid = args
            ex = locks.get(lid)
            if ex is not None and ex[0] == cid:
                del locks[lid]
        else:
            return state, None, False
        return tuple(sorted(locks.items())), res, False

    def observe(self, node):
        impl = priv(node, 'SyncObj', 'consumers')[0]
        return tuple(sorted(priv(impl, '_ReplLockManagerImpl', 'locks').items()))


def _observe_issued_commands():
    """Harness-level wrapper (observes, never changes): which release commands a client's lock manager issues on its
    own node - its own release() calls and the clean-up after an acquisition that came too late.  (An instance
    attribute on the consumer would become snapshot state; commands forwarded by other nodes arrive with a
    (node, request id) tuple as callback and are not counted.)"""
    SO = M.so.SyncObj
    if getattr(SO, '_vsim_c16_wrapped', False):
        return
    orig = SO._applyCommand

    def _applyCommand(self, command, callback, *a, **kw):
        w = CTX.world
        if w is not None and w.oracle is not None and hasattr(w.oracle, 'release_issued') and not isinstance(callback, tuple):
            ct = a[0] if a else kw.get('commandType')
            try:
                d = w.app.decode(command if ct is None else bytes([ct]) + command)
            except Exception:
                d = None
            if d is not None and d[0] == 'regular' and d[1] == 'release':
                w.oracle.release_issued.setdefault((w.cur, d[2][0]), []).append(w.wall())
        return orig(self, command, callback, *a, **kw)
    SO._applyCommand = _applyCommand
    SO._vsim_c16_wrapped = True


class LockApp(KVApp):
    def __init__(self, cfg):
        KVApp.__init__(self, cfg)
        self.model = LockModel(cfg['unlock'])
        install_batteries_seams()
        _observe_issued_commands()

    def make_consumers(self, world, host):
        lm = M.bt.ReplLockManager(self.cfg['unlock'], selfID='c%d' % host.idx)
        host.extra['lm'] = lm
        host.extra['stopped'] = False
        return [lm]


    def on_drop(self, world, host, node):
        lm = host.extra.get('lm')
        if lm is not None:
            lm.destroy()
            for s in host.extra.get('sleepers', []):
                for _ in range(3):
                    if not s.done:
                        s.resume()
            host.extra['sleepers'] = []

    def apply_event(self, world, ev):
        k = ev[1]
        h = world.hosts[ev[2]]
        lm = h.extra.get('lm')
        if h.node is None or lm is None:
            return 'down'
        world.cur = h.idx
        idx = h.idx
        if k == 'lock':
            lid, tag = ev[3], ev[4]
            t0 = world.wall()

            def cb(res, err):
                w = CTX.world
                if w is not None:
                    w.step_callbacks.append((tag, res, err, idx, None))
                    if w.oracle is not None:
                        w.oracle.on_lock_result(idx, lid, tag, res, err, t0, w.wall())
            world.oracle.on_lock_attempt(idx, lid, tag, t0)
            lm.tryAcquire(lid, callback=cb)
            return ('ok', idx)
        if k == 'unlock':
            lid, tag = ev[3], ev[4]
            held = lm.isAcquired(lid)
            world.oracle.on_release(idx, lid, held)
            lm.release(lid)
            return ('ok', idx)
        if k == 'lm':
            ss = [s for s in h.extra.get('sleepers', []) if not s.done]
            if not ss or world.T < ss[0].wake_at:
                return 'early'
            ss[0].resume()
            if ss[0].exc is not None:
                raise HarnessError('lock manager thread died: %r' % (ss[0].exc,))
            return ('ok', idx)
        if k == 'lmstop':
            lm.destroy()
            h.extra['stopped'] = True
            world.fault('client_stopped')
            world.oracle.on_client_stop(idx)
            return 'ok'
        raise HarnessError('unknown event %r' % (ev,))


class LockOracle(RaftOracle):
    def __init__(self, world, app):
        RaftOracle.__init__(self, world, app)
        self.check_log_matching = False
        self.unlock = world.cfg['unlock']
        self.attempts = {}           # tag -> (client, lock, t0)
        self.last_result = {}        # (client, lock) -> (res, late?, t)
        self.release_time = {}       # (client, lock) -> wall time of its last release() call
        self.release_issued = {}     # (client, lock) -> wall times at which its manager issued a release command
        self.pending = {}            # (client, lock) -> unanswered tryAcquire calls
        self.overlap = set()         # (client, lock) that had overlapping attempts
        self.cb_wall = {}            # tag -> wall time of the callback
        self.contended = set()
        self.held_at_stop = {}       # client -> set of locks held when it stopped
        self.expiries = 0
        self.lates = 0

    def _index_G(self, p, e):
        self.Gdec[p] = self.app.decode(e[0])

    def on_lock_attempt(self, c, lid, tag, t0):
        self.attempts[tag] = (c, lid, t0)
        if self.pending.get((c, lid), 0) > 0:
            # the same client asks for the same lock again while an earlier attempt is unanswered
            self.overlap.add((c, lid))
            self.w.probe('overlapping_attempts')
        self.pending[(c, lid)] = self.pending.get((c, lid), 0) + 1

    def on_lock_result(self, c, lid, tag, res, err, t0, t1):
        self.pending[(c, lid)] = max(0, self.pending.get((c, lid), 0) - 1)
        self.cb_wall[tag] = t1
        late = (t1 - t0) > self.unlock / 2.0
        if late:
            self.lates += 1
            self.w.probe('late_acquisition')
            if res:
                self.flag('late_acquire_reported_success', 'client c%d got tryAcquire(%r) == True %.3f s after the attempt (autoUnlockTime %.2f s)' % (c, lid, t1 - t0, self.unlock))
        if res and t0 <= self.release_time.get((c, lid), -1.0):
            # the client itself called release() after this attempt: the grant is void for it
            res = False
        self.last_result[(c, lid)] = (bool(res), late, t1)

    def on_release(self, c, lid, held):
        self.release_time[(c, lid)] = self.w.wall()
        self.last_result[(c, lid)] = (False, False, self.w.wall())

    def on_client_stop(self, c):
        h = self.w.hosts[c]
        lm = h.extra['lm']
        self.held_at_stop[c] = set(l for l in LOCKS if lm.isAcquired(l))

    def after_event(self, ev, out, touched):
        RaftOracle.after_event(self, ev, out, touched)
        w = self.w
        # (a) mutual exclusion as the clients see it, now
        for lid in LOCKS:
            holders = []
            for h in w.hosts:
                lm = h.extra.get('lm')
                if h.node is not None and lm is not None:
                    w.cur = h.idx
                    # a client considers the lock its own when isAcquired() says so AND it was last
                    # told that it holds it (it has not called release() since, and was not told
                    # that its acquisition failed or came too late)
                    lr = self.last_result.get((h.idx, lid))
                    if lm.isAcquired(lid) and lr is not None and lr[0]:
                        holders.append(h.idx)
            if len(holders) > 1:
                self.flag('two_holders', 'clients %r all consider lock %r held by themselves at wall time %.3f' % (holders, lid, w.wall()),
                          dict(holders=holders, lock=lid, overlapping_attempts=[c for c in holders if (c, lid) in self.overlap]))
        # coverage: contention and expiry
        if ev[1] == 'lock':
            att = [a for a in self.attempts.values() if a[1] == ev[3]]
            if len(set(a[0] for a in att)) >= 2:
                self.contended.add(ev[3])

    def summary(self):
        s = RaftOracle.summary(self)
        s.update(contended_locks=len(self.contended), late_acquisitions=self.lates, clients_stopped=len(self.held_at_stop))
        return s


class LockSched(Scheduler):
    def make_submit(self):
        return None

    def extra_choices(self, items):
        w, s = self.w, self.s
        ups = [h for h in w.hosts if h.node is not None and not h.extra.get('stopped')]
        if ups:
            items.append((s.get('w_lock', 0.3), 'lock'))
            items.append((s.get('w_unlock', 0.15), 'unlock'))
            if len(ups) > 1 and s.get('w_lmstop', 0) > 0:
                items.append((s['w_lmstop'], 'lmstop'))
        sl = [h for h in w.hosts if h.node is not None and any((not x.done) and w.T >= x.wake_at for x in h.extra.get('sleepers', []))]
        if sl:
            items.append((s.get('w_lm', 2.0), 'lm'))
        if s.get('w_ackstall', 0) > 0 and self.ackstall is None and self.leader_idx() is not None:
            items.append((s['w_ackstall'], 'ackstall'))

    ackstall = None

    def next_event(self):
        # a commit stall that keeps the leadership: what the followers answer is held back for about the auto-unlock
        # time (heartbeats still arrive, nobody campaigns, the leader's log stays), then everything is delivered
        st = self.ackstall
        if st is not None:
            if st['pending']:
                return [0.0, 'hold', st['pending'].pop(), 1]
            if self.w.T >= st['until']:
                if st['pids']:
                    return [0.0, 'hold', st['pids'].pop(), 0]
                self.ackstall = None
        return Scheduler.next_event(self)

    def build_extra(self, k, dt):
        w, rng = self.w, self.rng
        if k == 'ackstall':
            L = self.leader_idx()
            pids = [pid for pid, p in w.net.pipes.items() if p.reader.host == L and not p.dead and not p.held]
            if not pids:
                return [dt, 'nop']
            unlock = w.cfg['unlock']
            d = min(unlock * rng.choice([0.6, 1.05, 1.3, 2.0]), 0.85 * self.cfg['conf']['connectionTimeout'])
            self.ackstall = dict(pending=list(pids), pids=list(pids), until=w.T + d)
            w.probe('ack_stall')
            if d >= unlock:
                w.probe('ack_stall_longer_than_auto_unlock')
            return [dt, 'nop']
        ups = [h.idx for h in w.hosts if h.node is not None and not h.extra.get('stopped')]
        if k in ('lock', 'unlock'):
            c = rng.choice(ups)
            lid = rng.choice(LOCKS if rng.random() < 0.3 else LOCKS[:1])
            if k == 'lock' and w.oracle.pending.get((c, lid), 0) > 0 and rng.random() > self.s.get('p_overlap', 0.05):
                # a client normally waits for the answer before it asks for the same lock again
                return [dt, 'nop']
            tag = self.next_tag
            self.next_tag += 1
            return [dt, k, c, lid, tag]
        if k == 'lmstop':
            return [dt, 'lmstop', rng.choice(ups)]
        if k == 'lm':
            sl = [h.idx for h in w.hosts if h.node is not None and any((not x.done) and w.T >= x.wake_at for x in h.extra.get('sleepers', []))]
            return [dt, 'lm', rng.choice(sl)]
        return Scheduler.build_extra(self, k, dt)


class C16Spec(c01.C01Spec):
    prop = PROP
    guide_share = 0
    invariants = INVARIANTS

    def draw(self, rng, tier='quick'):
        cfg = c01.C01Spec.draw(self, rng, tier)
        cfg['n_voters'] = rng.choice([2, 3, 3, 4])
        cfg['unlock'] = rng.choice([0.6, 1.0, 2.0, 5.0])
        conf = cfg['conf']
        conf['logCompactionMinEntries'] = rng.choice([1 << 30, 10, 30])
        conf['logCompactionMinTime'] = rng.choice([1 << 30, 2])
        conf['dump'] = False
        conf['useFork'] = False
        cfg['placement'] = 'memory'
        s = cfg['sched']
        s['steps'] = rng.choice([2000, 4000])
        s['w_sub'] = 0.0
        s['w_lock'] = rng.choice([0.15, 0.4])
        s['w_unlock'] = rng.choice([0.05, 0.2])
        s['w_lm'] = rng.choice([0.5, 2.0, 4.0])
        s['w_lmstop'] = rng.choice([0.0, 0.003, 0.01])
        s['w_ackstall'] = rng.choice([0.0, 0.01, 0.03])
        s['w_part'] = rng.choice([0.0, 0.004, 0.01])
        s['w_hold'] = rng.choice([0.0, 0.03, 0.08])
        s['w_rst'] = rng.choice([0.0, 0.03])
        s['w_compact'] = 0.0
        s['dts'] = rng.choice([[0.0, 0.0005, 0.002, 0.005, 0.02], [0.0, 0.002, 0.01, 0.05, 0.1]])
        return cfg

    def make_app(self, cfg):
        return LockApp(cfg)

    def make_oracle(self, world, app):
        return LockOracle(world, app)

    def make_sched(self, world, rng, cfg):
        return LockSched(world, rng, cfg)

    def quiet(self, w, orc, sch, apply):
        """Faults stop; prolongation threads run on time; then the obtainability checks."""
        unlock = w.cfg['unlock']
        apply([0.0, 'heal'])
        sch.held = []

        def rounds(duration):
            t0 = w.T
            while w.T - t0 < duration:
                quiet_round(w, apply, 0.05)
                for h in w.hosts:
                    if h.node is not None and any((not x.done) and w.T >= x.wake_at for x in h.extra.get('sleepers', [])):
                        apply([0.0, 'lm', h.idx])
                if any(v.inv in OWN for v in orc.violations):
                    return False
            return True
        B = c05.SPEC.bound(w.cfg)
        # let the cluster settle (one leader, everything applied)
        t0 = w.T
        settled = False
        while w.T - t0 < B:
            if not rounds(0.5):
                return
            leaders = [h for h in w.hosts if h.node is not None and h.node._isLeader()]
            top = max(orc.G) if orc.G else 1
            if len(leaders) == 1 and all(h.node is None or (h.node.raftLastApplied >= top and h.node._getLeader() is not None) for h in w.hosts):
                settled = True
                break
        if not settled:
            w.probe('final_convergence_failed')
            return
        # (b) a client that was told it failed (late or refused) must not keep the lock: wait for its
        # release to commit / the lock to expire
        if not rounds(unlock * 1.5 + 1.0):
            return
        for (c, lid), (res, late, t) in sorted(orc.last_result.items()):
            h = w.hosts[c]
            lm = h.extra.get('lm')
            if h.node is None or lm is None or res:
                continue
            w.cur = c
            if lm.isAcquired(lid) and not late:
                # an explicit release() (fire and forget) that was lost: outside the statement, recorded
                w.probe('release_lost_lock_still_prolonged')
                continue
            if lm.isAcquired(lid):
                # which of the client's attempts was granted last in the common sequence?
                by_args = dict(((a[1], 'c%d' % a[0], a[2]), tg) for tg, a in orc.attempts.items())
                last_grant = None
                for p in sorted(orc.Gdec):
                    dd = orc.Gdec[p]
                    if dd[0] == 'regular' and dd[1] == 'acquire' and dd[2][0] == lid and dd[2][1] == 'c%d' % c:
                        orc._extend_model(p)
                        if orc.results.get(p):
                            last_grant = by_args.get(tuple(dd[2]))
                cbs = orc.cbs.get(last_grant) or []
                att = orc.attempts.get(last_grant)
                told_late = bool(cbs and att and cbs[0][1] == 0 and (orc.cb_wall.get(last_grant, 0) - att[2]) > unlock / 2.0)
                if not told_late:
                    # e.g. the granted attempt was answered LEADER_CHANGED (outcome open): outside the statement
                    w.probe('granted_attempt_reported_unknown_lock_still_prolonged')
                    continue
                # did the manager issue its clean-up release when it told the client "too late"?  (If it did and the lock
                # is still there, the fire-and-forget release was lost: the recorded finding K-C16-late-release-lost.)
                t_cb = orc.cb_wall.get(last_grant, 0)
                issued = [x for x in orc.release_issued.get((c, lid), []) if x >= t_cb - 1e-9]
                orc.flag('late_acquirer_keeps_lock', 'client c%d was told that its acquisition of lock %r came too late (attempt %r) %.1f s ago but isAcquired() is still True and its prolongation keeps the lock (clean-up release commands issued since: %d)' % (
                    c, lid, last_grant, w.wall() - t, len(issued)), dict(cleanup_release_issued=bool(issued)))
                return
        # (c) locks whose holder stopped prolonging become obtainable after autoUnlockTime
        live = [h for h in w.hosts if h.node is not None and not h.extra.get('stopped')]
        for c, locks in sorted(orc.held_at_stop.items()):
            for lid in sorted(locks):
                if not live:
                    continue
                got = []
                tag = sch.next_tag
                sch.next_tag += 1
                apply([0.0, 'lock', live[0].idx, lid, tag])
                if not rounds(2.0):
                    return
                r = orc.last_result.get((live[0].idx, lid))
                holder_other = [h.idx for h in live if h.extra['lm'].isAcquired(lid)]
                # the lock table itself must have granted it (a grant that reached the client too late is
                # reported as failed by design and does not count against obtainability)
                granted = False
                att = orc.attempts.get(tag)
                for p, dd in orc.Gdec.items():
                    if dd[0] == 'regular' and dd[1] == 'acquire' and att is not None and tuple(dd[2]) == (lid, 'c%d' % live[0].idx, att[2]):
                        orc._extend_model(p)
                        granted = bool(orc.results.get(p))
                if (r is None or not r[0]) and not holder_other and not granted:
                    orc.flag('lock_not_obtainable_after_holder_stopped', 'lock %r was held by client c%d when it stopped %.1f s ago (autoUnlockTime %.2f s); tryAcquire by client c%d still fails and no live client holds it' % (
                        lid, c, unlock * 1.5 + 1.0, unlock, live[0].idx))
                    return

    def nontrivial(self, res):
        sm = res['summary']
        return sm.get('contended_locks', 0) > 0 and (sm.get('late_acquisitions', 0) + sm.get('clients_stopped', 0)) > 0


SPEC = C16Spec()
run = make_run(SPEC)


def match_known(k, viol, events, cfg):
    m = k.get('match', {})
    d = viol.get('detail') or {}
    if viol['inv'] not in m.get('invariants', []):
        return False
    if m.get('kind') == 'overlapping_attempts':
        return bool(d.get('overlapping_attempts'))
    if m.get('kind') == 'cleanup_release_issued_and_lost':
        # the manager did send its release after telling the client "too late"; it never took effect
        return bool(d.get('cleanup_release_issued'))
    return True
