"""C07 Votes and terms survive restarts (one leader per term across crashes)."""
from .common import *
from . import c01, c03
from ..oracle import INV_PROP, RaftOracle
from ..boot import priv

PROP = 'C07'
LEVEL = 'exploration'
INVARIANTS = ('double_vote', 'double_vote_across_restart', 'stale_leader_followed', 'stale_leader_followed_across_restart',
              'stale_candidate_followed', 'stale_candidate_followed_across_restart', 'two_leaders', 'acknowledged_term_lost_across_restart')
for _i in INVARIANTS:
    INV_PROP.setdefault(_i, PROP)
RULE = ('one case = one seeded execution of a 2-5 voter cluster of journaled nodes under the C03 schedule space (independent '
        'clocks, short election timeouts, resets, holds, partitions) extended with kills between steps and at storage ops and '
        'restarts, biased to kill a voter right after it granted a vote or first acknowledged a leader of a new term; votes, terms and acknowledgements are keyed by node '
        'address across incarnations; distinct = distinct event/state log digest; non-trivial = at least one voter that had '
        'granted a vote or acknowledged a leader in the highest term so far was restarted, and at least 3 terms had a candidate')
COMPONENTS_REAL = REAL_CLUSTER
COMPONENTS_STUB = STUB_CLUSTER
ASSUMPTIONS = ASSUME_CLUSTER + ['crash model = process kill (see C08); restart = a fresh SyncObj on the durable image']
BUDGET = dict(quick=dict(runs=480, wall=80, per_run_wall=60), thorough=dict(runs=40000, wall=900, per_run_wall=120))


class DurableTap(object):
    """Votes / acknowledged terms per node address, across incarnations."""

    def __init__(self, world, oracle):
        self.w = world
        self.o = oracle
        self.votes = {}          # (host, term) -> (candidate id, incarnation)
        self.acked = {}          # host -> (highest term acknowledged (vote or success ack), incarnation)
        self.hot = None          # voter that has just granted a vote (for the adversary)
        self.restarted_after_ack = 0
        self.below = {}
        self.last_new_term_ack = None

    def _inc(self, i):
        return self.w.hosts[i].inc

    def on_send(self, src, node, msg, ok):
        if not isinstance(msg, dict):
            return
        h = self.w.hosts[src]
        if h.doomed:
            return
        t = msg.get('type')
        if t == 'response_vote':
            term = msg['term']
            inc = h.inc
            k = (src, term)
            prev = self.votes.get(k)
            if prev is not None and prev[0] != node.id:
                if prev[1] == inc:
                    self.o.flag('double_vote', 'host %d granted its vote in term %d to %s and to %s' % (src, term, prev[0], node.id))
                else:
                    self.o.flag('double_vote_across_restart', 'host %d granted its vote in term %d to %s (incarnation %d) and to %s (incarnation %d)' % (
                        src, term, prev[0], prev[1], node.id, inc), dict(host=src))
            self.votes.setdefault(k, (node.id, inc))
            a = self.acked.get(src)
            if a is not None and term < a[0]:
                self.o.flag('stale_candidate_followed' + ('' if a[1] == inc else '_across_restart'),
                            'host %d grants a vote in term %d after having acknowledged term %d (incarnation %d -> %d)' % (src, term, a[0], a[1], inc), dict(host=src))
            if a is None or term > a[0]:
                self.acked[src] = (term, inc)
            self.hot = src
            self.w.probe('votes_granted')
        elif t == 'next_node_idx' and msg.get('success'):
            n = h.node
            if n is None:
                return
            term = n.raftCurrentTerm
            inc = h.inc
            a = self.acked.get(src)
            if a is not None and term < a[0]:
                self.o.flag('stale_leader_followed' + ('' if a[1] == inc else '_across_restart'),
                            'host %d acknowledges entries to a leader of term %d after having acknowledged term %d (incarnation %d -> %d)' % (src, term, a[0], a[1], inc), dict(host=src))
            if a is None or term > a[0]:
                self.acked[src] = (term, inc)
                # a term learned from a leader's append_entries (no vote involved) is a moment for the adversary too
                self.hot = src
                self.last_new_term_ack = (src, inc)
                self.w.probe('new_term_acknowledged')

    def on_recv(self, dst, node, msg):
        pass


class C07Oracle(RaftOracle):
    def on_start(self, host):
        RaftOracle.on_start(self, host)
        tap = self.w.tap
        a = tap.acked.get(host.idx) if tap is not None else None
        n = host.node
        if a is not None and n is not None and n.raftCurrentTerm < a[0]:
            # The witness state of "follows an older term after a restart": every message of a term in between that the
            # network still holds (a delayed append_entries or vote request of a deposed leader / candidate) is accepted
            # from here.  Reported at the restart because whether such a message is on its way is the scheduler's choice.
            self.flag('acknowledged_term_lost_across_restart',
                      'host %d acknowledged term %d (incarnation %d) and comes back with current term %d: it will follow any leader or candidate of a term in between' % (
                          host.idx, a[0], a[1], n.raftCurrentTerm), dict(host=host.idx))


class C07Sched(Scheduler):
    """Adversary: right after a vote was granted, kill that voter and restart it soon."""

    def __init__(self, world, rng, cfg):
        Scheduler.__init__(self, world, rng, cfg)
        self.restart_soon = []
        self.pair_after = None
        self.dep = dict(phase='wait_leader', t0=rng.choice([0.5, 2.0, 4.0])) if cfg.get('deposed_scenario') else None


    def next_event(self):
        w, rng = self.w, self.rng
        tap = w.tap
        if tap is not None:
            # reach probe (zero on the pinned tree): a process came back with a term below one its node acknowledged
            for h in w.hosts:
                a = tap.acked.get(h.idx)
                if h.node is not None and a is not None and a[1] != h.inc and h.node.raftCurrentTerm < a[0] and tap.below.get(h.idx) != h.inc:
                    tap.below[h.idx] = h.inc
                    w.probe('recovered_term_below_acknowledged')
        if self.pair_after is not None and not self.queue:
            i, self.pair_after = self.pair_after, None
            n = w.hosts[i].node
            a = tap.acked.get(i) if tap is not None else None
            if n is not None and a is not None and n.raftCurrentTerm < a[0]:
                stale = [h.idx for h in w.hosts if h.node is not None and h.idx != i and
                         priv(h.node, 'SyncObj', 'raftState') == 2 and n.raftCurrentTerm <= h.node.raftCurrentTerm < a[0]]
                if stale:
                    x = rng.choice(stale)
                    g = [0] * len(w.hosts)
                    g[i] = g[x] = 1
                    w.probe('restart_next_to_stale_leader')
                    return [0.0, 'part', g]
        ev = self._deposed_scenario()
        if ev is not None:
            return ev
        if self.restart_soon and rng.random() < 0.25:
            i = self.restart_soon.pop(0)
            if w.hosts[i].node is None:
                # adversary: bring the node back alone, look at the term it recovered, and if that is below a term it has
                # acknowledged let it meet - alone - a node that still leads a term in between (the traffic of such a leader
                # is what a node that lost its term would follow)
                a = tap.acked.get(i) if tap is not None else None
                if a is not None and rng.random() < 0.7:
                    g = [0] * len(w.hosts)
                    g[i] = 1
                    self.queue.append([0.0, 'start', i])
                    self.pair_after = i
                    return [0.0, 'part', g]
                return [rng.choice([0.0, 0.01, 0.1]), 'start', i]
        if tap is not None and tap.hot is not None:
            v = tap.hot
            tap.hot = None
            if rng.random() < self.s.get('p_kill_voter', 0.3) and w.hosts[v].node is not None and self._may_kill():
                self.restart_soon.append(v)
                w.probe('kill_right_after_vote')
                return [0.0, 'kill', v, 1]
        return Scheduler.next_event(self)


def _leaders(w):
    return [h.idx for h in w.hosts if h.node is not None and priv(h.node, 'SyncObj', 'raftState') == 2]


def _deposed_scenario(self):
    """Guided schedule (a share of the five-voter runs; the generic scheduler keeps choosing ticks, deliveries and
    submissions in between): a leader X is cut off alone together with one more node N; the other three elect Y; N joins
    them and learns the new term from append_entries only; N is killed right after its acknowledgement and comes back
    next to X, which still leads the old term."""
    w, rng = self.w, self.rng
    st = self.dep
    if st is None:
        return None
    n = len(w.hosts)
    ph = st['phase']
    if ph == 'off':
        self.dep = None
        return None
    if w.T > st.get('deadline', 1e18):
        w.probe('deposed_scenario_gave_up_in_' + ph)
        st['phase'] = 'off'
        return [0.0, 'heal']
    if ph == 'wait_leader':
        ls = _leaders(w)
        if len(ls) == 1 and all(h.node is not None for h in w.hosts) and w.groups is None and w.T > st['t0']:
            x = ls[0]
            nn = rng.choice([i for i in range(n) if i != x])
            st.update(x=x, n=nn, phase='wait_new_leader', deadline=w.T + 40 * self.cfg['conf']['raftMaxTimeout'])
            g = [0] * n
            g[x] = 1
            w.probe('deposed_scenario_started')
            # N is down during the election (alone it would campaign and race ahead in terms)
            self.queue.append([0.0, 'kill', nn, 1])
            return [0.0, 'part', g]
    elif ph == 'wait_new_leader':
        ls = [i for i in _leaders(w) if i not in (st['x'], st['n'])]
        if ls and w.hosts[st['x']].node is not None and st['x'] in _leaders(w):
            st['phase'] = 'wait_ack'
            w.probe('deposed_scenario_new_leader')
            return [0.0, 'start', st['n']]
    elif ph == 'wait_ack':
        tap = w.tap
        if tap.last_new_term_ack == (st['n'], w.hosts[st['n']].inc) and w.hosts[st['n']].node is not None:
            st['phase'] = 'restart'
            w.probe('deposed_scenario_kill_after_ack')
            return [0.0, 'kill', st['n'], 1]
    elif ph == 'restart':
        st['phase'] = 'off'
        g = [0] * n
        g[st['x']] = g[st['n']] = 1
        self.queue.append([rng.choice([0.0, 0.05]), 'start', st['n']])
        return [0.0, 'part', g]
    elif ph == 'off':
        self.dep = None
    return None


C07Sched._deposed_scenario = _deposed_scenario


class C07Spec(c03.C03Spec):
    prop = PROP
    invariants = INVARIANTS

    def draw(self, rng, tier='quick'):
        cfg = c03.C03Spec.draw(self, rng, tier)
        conf = cfg['conf']
        conf['journal'] = True
        conf['dump'] = rng.random() < 0.7
        conf['useFork'] = False
        if not conf['dump']:
            conf['logCompactionMinEntries'] = 1 << 30
            conf['logCompactionMinTime'] = 1 << 30
        s = cfg['sched']
        s['w_kill'] = rng.choice([0.01, 0.03])
        s['w_killop'] = rng.choice([0.0, 0.01])
        s['w_start'] = rng.choice([0.3, 1.0])
        s['w_compact'] = 0.0 if not conf['dump'] else s['w_compact']
        s['p_kill_voter'] = rng.choice([0.1, 0.3, 0.6])
        s['max_down'] = rng.choice([1, 2, None])
        if rng.random() < 0.4:
            # five voters: a leader can be deposed by three others while a fourth node is down or away, which
            # then learns the new term from append_entries alone
            cfg['n_voters'] = 5
            cfg['deposed_scenario'] = rng.random() < 0.5
            if cfg['deposed_scenario']:
                # the guided phases own the partitions of such a run
                s['w_part'] = 0.0
                s['w_heal'] = 0.0
                s['churn'] = None
                s['max_down'] = 1
                s['w_kill'] = 0.0
                s['w_killop'] = 0.0
                s['p_kill_voter'] = 0.0
                s['w_start'] = 0.0
        return cfg

    def make_oracle(self, world, app):
        return C07Oracle(world, app)

    def make_tap(self, world, oracle):
        return DurableTap(world, oracle)

    def make_sched(self, world, rng, cfg):
        return C07Sched(world, rng, cfg)

    def nontrivial(self, res):
        sm = res['summary']
        return res['faults'].get('restart', 0) > 0 and res['probes'].get('votes_granted', 0) > 0 and sm.get('terms_with_candidate', 0) >= 3


SPEC = C07Spec()
run = make_run(SPEC)


def match_known(k, viol, events, cfg):
    """Known finding: term and vote are not durable (initialised to 0/None on every start)."""
    m = k.get('match', {})
    if viol['inv'] in m.get('invariants', []):
        if viol['inv'] == 'two_leaders':
            # only when a restart happened before the violation
            n = viol.get('evno') or len(events)
            return any(e[1] == 'start' and i >= m.get('initial_starts', 0) for i, e in enumerate(events[:n]) if e[1] == 'start' and _is_restart(events, i))
        return True
    return False


def _is_restart(events, i):
    h = events[i][2]
    return any(e[1] in ('kill', 'killop') and e[2] == h for e in events[:i])
