"""C07 Votes and terms survive restarts (one leader per term across crashes)."""
from .common import *
from . import c01, c03
from ..oracle import INV_PROP, RaftOracle
from ..boot import priv

PROP = 'C07'
LEVEL = 'exploration'
INVARIANTS = ('double_vote', 'double_vote_across_restart', 'stale_leader_followed', 'stale_leader_followed_across_restart',
              'stale_candidate_followed', 'stale_candidate_followed_across_restart', 'two_leaders')
for _i in INVARIANTS:
    INV_PROP.setdefault(_i, PROP)
RULE = ('one case = one seeded execution of a 2-5 voter cluster of journaled nodes under the C03 schedule space (independent '
        'clocks, short election timeouts, resets, holds, partitions) extended with kills between steps and at storage ops and '
        'restarts, biased to kill a voter right after it granted a vote; votes, terms and acknowledgements are keyed by node '
        'address across incarnations; distinct = distinct event/state log digest; non-trivial = at least one voter that had '
        'granted a vote or acknowledged a leader in the highest term so far was restarted, and at least 3 terms had a candidate')
COMPONENTS_REAL = REAL_CLUSTER
COMPONENTS_STUB = STUB_CLUSTER
ASSUMPTIONS = ASSUME_CLUSTER + ['crash model = process kill (see C08); restart = a fresh SyncObj on the durable image']
BUDGET = dict(quick=dict(runs=480, wall=80, per_run_wall=60), thorough=dict(runs=40000, wall=900, per_run_wall=120))


class DurableTap(object):
    """Votes / acknowledged terms per node address, across incarnations."""

    def __init__(self, world, oracle):
        self.w = world
        self.o = oracle
        self.votes = {}          # (host, term) -> (candidate id, incarnation)
        self.acked = {}          # host -> (highest term acknowledged (vote or success ack), incarnation)
        self.hot = None          # voter that has just granted a vote (for the adversary)
        self.restarted_after_ack = 0

    def _inc(self, i):
        return self.w.hosts[i].inc

    def on_send(self, src, node, msg, ok):
        if not isinstance(msg, dict):
            return
        h = self.w.hosts[src]
        if h.doomed:
            return
        t = msg.get('type')
        if t == 'response_vote':
            term = msg['term']
            inc = h.inc
            k = (src, term)
            prev = self.votes.get(k)
            if prev is not None and prev[0] != node.id:
                if prev[1] == inc:
                    self.o.flag('double_vote', 'host %d granted its vote in term %d to %s and to %s' % (src, term, prev[0], node.id))
                else:
                    self.o.flag('double_vote_across_restart', 'host %d granted its vote in term %d to %s (incarnation %d) and to %s (incarnation %d)' % (
                        src, term, prev[0], prev[1], node.id, inc), dict(host=src))
            self.votes.setdefault(k, (node.id, inc))
            a = self.acked.get(src)
            if a is not None and term < a[0]:
                self.o.flag('stale_candidate_followed' + ('' if a[1] == inc else '_across_restart'),
                            'host %d grants a vote in term %d after having acknowledged term %d (incarnation %d -> %d)' % (src, term, a[0], a[1], inc), dict(host=src))
            if a is None or term > a[0]:
                self.acked[src] = (term, inc)
            self.hot = src
            self.w.probe('votes_granted')
        elif t == 'next_node_idx' and msg.get('success'):
            n = h.node
            if n is None:
                return
            term = n.raftCurrentTerm
            inc = h.inc
            a = self.acked.get(src)
            if a is not None and term < a[0]:
                self.o.flag('stale_leader_followed' + ('' if a[1] == inc else '_across_restart'),
                            'host %d acknowledges entries to a leader of term %d after having acknowledged term %d (incarnation %d -> %d)' % (src, term, a[0], a[1], inc), dict(host=src))
            if a is None or term > a[0]:
                self.acked[src] = (term, inc)

    def on_recv(self, dst, node, msg):
        pass


class C07Sched(Scheduler):
    """Adversary: right after a vote was granted, kill that voter and restart it soon."""

    def __init__(self, world, rng, cfg):
        Scheduler.__init__(self, world, rng, cfg)
        self.restart_soon = []

    def next_event(self):
        w, rng = self.w, self.rng
        tap = w.tap
        if self.restart_soon and rng.random() < 0.25:
            i = self.restart_soon.pop(0)
            if w.hosts[i].node is None:
                return [rng.choice([0.0, 0.01, 0.1]), 'start', i]
        if tap is not None and tap.hot is not None:
            v = tap.hot
            tap.hot = None
            if rng.random() < self.s.get('p_kill_voter', 0.3) and w.hosts[v].node is not None and self._may_kill():
                self.restart_soon.append(v)
                w.probe('kill_right_after_vote')
                return [0.0, 'kill', v, 1]
        return Scheduler.next_event(self)


class C07Spec(c03.C03Spec):
    prop = PROP
    invariants = INVARIANTS

    def draw(self, rng, tier='quick'):
        cfg = c03.C03Spec.draw(self, rng, tier)
        conf = cfg['conf']
        conf['journal'] = True
        conf['dump'] = rng.random() < 0.7
        conf['useFork'] = False
        if not conf['dump']:
            conf['logCompactionMinEntries'] = 1 << 30
            conf['logCompactionMinTime'] = 1 << 30
        s = cfg['sched']
        s['w_kill'] = rng.choice([0.01, 0.03])
        s['w_killop'] = rng.choice([0.0, 0.01])
        s['w_start'] = rng.choice([0.3, 1.0])
        s['w_compact'] = 0.0 if not conf['dump'] else s['w_compact']
        s['p_kill_voter'] = rng.choice([0.1, 0.3, 0.6])
        s['max_down'] = rng.choice([1, 2, None])
        return cfg

    def make_tap(self, world, oracle):
        return DurableTap(world, oracle)

    def make_sched(self, world, rng, cfg):
        return C07Sched(world, rng, cfg)

    def nontrivial(self, res):
        sm = res['summary']
        return res['faults'].get('restart', 0) > 0 and res['probes'].get('votes_granted', 0) > 0 and sm.get('terms_with_candidate', 0) >= 3


SPEC = C07Spec()
run = make_run(SPEC)


def match_known(k, viol, events, cfg):
    """Known finding: term and vote are not durable (initialised to 0/None on every start)."""
    m = k.get('match', {})
    if viol['inv'] in m.get('invariants', []):
        if viol['inv'] == 'two_leaders':
            # only when a restart happened before the violation
            n = viol.get('evno') or len(events)
            return any(e[1] == 'start' and i >= m.get('initial_starts', 0) for i, e in enumerate(events[:n]) if e[1] == 'start' and _is_restart(events, i))
        return True
    return False


def _is_restart(events, i):
    h = events[i][2]
    return any(e[1] in ('kill', 'killop') and e[2] == h for e in events[:i])
