"""C06 A journaled node restarts without forgetting anything it acknowledged."""
from .common import *
from . import c01, c05, c07
from ..oracle import INV_PROP, RaftOracle, log_of, norm, LEADER
from ..boot import priv, HarnessError

PROP = 'C06'
LEVEL = 'exploration'
C06_OWN = ('acked_entry_lost', 'recovered_commit_unknown', 'recovered_commit_beyond_log', 'restart_failed', 'success_lost',
           'restart_wedged')
INVARIANTS = C06_OWN + ('apply_conflict', 'apply_order', 'apply_skip', 'apply_tag_mismatch', 'state_mismatch',
                        'applied_not_committed', 'commit_conflict', 'committed_entry_changed')
for _i in C06_OWN:
    INV_PROP[_i] = PROP
RULE = ('one case = one seeded execution of a 2-5 voter cluster whose voters all have a journal file (dump file on/off, fork '
        'on/off) under the C01 network schedules plus process kills: between events and at the k-th primitive storage op from '
        'now (journal record write, header offset, .meta tmp write/move, dump tmp write/rename, snapshot receive, journal trim), '
        'before/after/torn, any number per run up to all nodes at once, and restarts on the durable image; kill points are '
        'SAMPLED per run (C08 enumerates them for the journal alone); distinct = distinct event/state log digest; non-trivial = '
        'at least one kill at a storage op and at least one restart of a node with a non-empty journal (more than the initial entry)')
COMPONENTS_REAL = REAL_CLUSTER
COMPONENTS_STUB = STUB_CLUSTER
ASSUMPTIONS = ASSUME_CLUSTER + ['crash model = process kill: completed primitive storage ops are durable in program order; the interrupted '
                                'byte-range write is absent, complete or a prefix (stores of <= 8 bytes are atomic); power loss is out of scope '
                                '(the library never calls fsync)',
                                'an acknowledgement binds from the moment the node hands it to its transport: the journal write precedes it']
BUDGET = dict(quick=dict(runs=480, wall=85, per_run_wall=60), thorough=dict(runs=40000, wall=900, per_run_wall=120))


class C06Tap(c07.DurableTap):
    def on_send(self, src, node, msg, ok):
        c07.DurableTap.on_send(self, src, node, msg, ok)
        if isinstance(msg, dict) and msg.get('type') == 'next_node_idx' and msg.get('success'):
            h = self.w.hosts[src]
            if h.doomed or h.node is None or not ok:
                return
            self.o.note_ack(h, msg['next_node_idx'] - 1)


class C06Oracle(RaftOracle):
    def __init__(self, world, app):
        RaftOracle.__init__(self, world, app)
        self.said = dict((h.idx, {}) for h in world.hosts)        # host -> {idx: term} acknowledged / counted
        self.commit_values = dict((h.idx, set([1])) for h in world.hosts)
        self.pending = {}          # host -> recovery obligations of the last kill
        self.restarts_nonempty = 0
        self.c07_fired = None      # evno of the first C07-class alarm (taint for known-finding matching)
        self.trimmed_without_dump = set()

    def flag(self, inv, msg, detail=None):
        if inv in c07.INVARIANTS and self.c07_fired is None:
            self.c07_fired = self.w.evno
        if inv in INVARIANTS and inv not in ('restart_failed',):
            detail = dict(detail or {})
            detail.setdefault('after_vote_or_term_alarm', self.c07_fired)
        RaftOracle.flag(self, inv, msg, detail)

    # statements a node makes -----------------------------------------------------
    def note_ack(self, host, upto):
        log = log_of(host.node)
        if len(log) == 0:
            return
        said = self.said[host.idx]
        base = log[0][1]
        p = min(upto, log[-1][1])
        while p >= base:
            e = log[p - base]
            if said.get(p) == e[2]:
                break
            said[p] = e[2]
            p -= 1

    def _observe(self, host, fresh=False):
        node = host.node
        v = self.views[host.idx]
        old_commit = v.commit
        RaftOracle._observe(self, host, fresh)
        if len(log_of(node)) == 0:
            return
        c = node.raftCommitIndex
        self.commit_values[host.idx].add(c)
        if c > old_commit or fresh:
            # entries it reports committed are entries it must not forget
            self.note_ack(host, c)
        p = self.pending.get(host.idx)
        if p is not None and not fresh and not priv(node, 'SyncObj', 'needLoadDumpFile'):
            del self.pending[host.idx]
            self._check_recovery(host, p)

    def on_kill(self, host):
        RaftOracle.on_kill(self, host)
        node = host.node
        if node is None:
            return
        log = log_of(node)
        said = self.said[host.idx]
        owed = {}
        for e in log[:]:
            if said.get(e[1]) == e[2]:
                owed[e[1]] = e[2]
        ki = host.fs.killed_in if host.doomed else None
        self.pending[host.idx] = dict(owed=owed, kill=list(ki) if ki else None, inc=host.inc, evno=self.w.evno,
                                      had_dump=('dump' in host.fs.files), applied=node.raftLastApplied,
                                      commit=node.raftCommitIndex, log_range=(log[0][1], log[-1][1]) if len(log) else None)
        if len(log) > 1:
            self.restarts_nonempty += 1

    def on_start_failed(self, host, exc, origin):
        p = self.pending.get(host.idx) or {}
        self.flag('restart_failed', 'host %d cannot start on its durable image: %r at %s' % (host.idx, exc, origin),
                  dict(kill=p.get('kill'), host=host.idx))

    def on_start(self, host):
        RaftOracle.on_start(self, host)
        node = host.node
        log = log_of(node)
        if len(log) == 0:
            return
        c = node.raftCommitIndex
        p = self.pending.get(host.idx)
        if host.inc > 1 and c not in self.commit_values[host.idx]:
            self.flag('recovered_commit_unknown', 'host %d restarts with commit index %d which it never held (%r...)' % (
                host.idx, c, sorted(self.commit_values[host.idx])[-5:]), dict(kill=p and p.get('kill'), host=host.idx))

    def _check_recovery(self, host, p):
        """After the first tick of the new incarnation (the dump, if any, is loaded)."""
        node = host.node
        log = log_of(node)
        base, last = log[0][1], log[-1][1]
        applied = node.raftLastApplied
        dump_loaded = any(l[0] == host.idx for l in self.w.step_loads) or applied > 1
        lost = []
        superseded_from = None
        for idx, term in sorted(p['owed'].items()):
            if superseded_from is not None and idx >= superseded_from:
                continue        # behind an entry that a newer leader's data replaced: that tail was never committed
            if base <= idx <= last:
                if log[idx - base][2] > term:
                    # the position now holds an entry of a NEWER term: the data of a later leader (a snapshot whose
                    # installation the kill interrupted after the received file had replaced the dump, or entries it
                    # sent before the first tick was over) replaced an acknowledged but uncommitted tail - what Raft does
                    superseded_from = idx
                    self.w.probe('acknowledged_tail_superseded_by_newer_term')
                    continue
                if log[idx - base][2] != term:
                    lost.append((idx, term, 'replaced by term %d' % log[idx - base][2]))
            elif idx <= applied and dump_loaded:
                continue        # covered by the recovered snapshot
            else:
                lost.append((idx, term, 'missing'))
        if lost:
            self.flag('acked_entry_lost',
                      'host %d acknowledged %d entries that are neither in its recovered log [%d..%d] nor covered by its recovered snapshot (applied %d): %r' % (
                          host.idx, len(lost), base, last, applied, lost[:5]),
                      dict(kill=p.get('kill'), host=host.idx, before=dict(applied=p['applied'], commit=p['commit'], log=p['log_range'], had_dump=p['had_dump'])))
        c = node.raftCommitIndex
        if c > max(last, applied):
            self.flag('recovered_commit_beyond_log', 'host %d restarted with commit index %d but its log ends at %d (snapshot at %d)' % (host.idx, c, last, applied),
                      dict(kill=p.get('kill'), host=host.idx))

    def summary(self):
        s = RaftOracle.summary(self)
        s['restarts_with_nonempty_journal'] = self.restarts_nonempty
        return s


class C06Sched(c07.C07Sched):
    """Bias some kills to land inside compaction / snapshot installation."""

    def next_event(self):
        w, rng = self.w, self.rng
        if self.s.get('p_kill_in_compaction', 0) > 0 and rng.random() < 0.02:
            # a node that is about to compact / is serializing: die at one of its next storage ops
            cands = []
            for h in w.hosts:
                n = h.node
                if n is None or h.readonly:
                    continue
                try:
                    ser = priv(n, 'SyncObj', 'serializer')
                    if priv(ser, 'Serializer', 'pid') != 0 or priv(n, 'SyncObj', 'forceLogCompaction') or \
                            n._getRaftLogSize() > n.conf.logCompactionMinEntries:
                        cands.append(h.idx)
                except HarnessError:
                    raise
            if cands and self._may_kill() and rng.random() < self.s['p_kill_in_compaction']:
                i = rng.choice(cands)
                self.restart_soon.append(i)
                w.probe('kill_aimed_at_compaction')
                return [0.0, 'killop', i, rng.choice([1, 2, 3, 4, 6, 9]), rng.choice(['before', 'after', 'torn']), rng.choice([0.1, 0.5, 0.9])]
        if self.s.get('p_kill_in_install', 0) > 0 and rng.random() < 0.05:
            # a node that is in the middle of receiving a snapshot: die at one of the next storage ops (a chunk
            # written to the temporary file, or - with the last chunk - the steps of the installation: the received
            # file replacing the dump, the journal being cleared and rewritten, the .meta update)
            cands = []
            for h in w.hosts:
                n = h.node
                if n is None or h.readonly or h.doomed or h.fs.kill_at is not None:
                    continue
                ser = priv(n, 'SyncObj', 'serializer')
                if priv(ser, 'Serializer', 'incomingTransmissionFile') is not None:
                    cands.append(h.idx)
            if cands and self._may_kill() and rng.random() < self.s['p_kill_in_install']:
                i = rng.choice(cands)
                self.restart_soon.append(i)
                w.probe('kill_aimed_at_snapshot_install')
                return [0.0, 'killop', i, rng.choice([1, 2, 3, 4, 5, 6, 8, 11, 15]), rng.choice(['before', 'after', 'torn']), rng.choice([0.1, 0.5, 0.9])]
        return c07.C07Sched.next_event(self)


class C06Spec(c01.C01Spec):
    churn_share = 0
    prop = PROP
    invariants = INVARIANTS

    def draw(self, rng, tier='quick'):
        cfg = c01.C01Spec.draw(self, rng, tier)
        conf = cfg['conf']
        conf['journal'] = True
        r = rng.random()
        if r < 0.85:
            conf['dump'] = True
            conf['useFork'] = rng.random() < 0.4
        else:
            conf['dump'] = False
            conf['useFork'] = False
            if rng.random() < 0.7:
                conf['logCompactionMinEntries'] = 1 << 30
                conf['logCompactionMinTime'] = 1 << 30
                cfg['sched']['w_compact'] = 0.0
            else:
                cfg['nodump_compaction'] = True
        cfg['placement'] = 'journal+dump' if conf['dump'] else 'journal-only'
        s = cfg['sched']
        s['w_kill'] = rng.choice([0.005, 0.02])
        s['w_killop'] = rng.choice([0.01, 0.03])
        if conf.get('useFork'):
            # the dump writer alone dies by a signal while the node keeps running
            s['w_childkill'] = rng.choice([0.0, 0.05, 0.2])
        s['w_start'] = rng.choice([0.1, 0.5])
        s['p_kill_voter'] = 0.0
        s['p_kill_in_compaction'] = rng.choice([0.0, 0.5, 1.0])
        s['p_kill_in_install'] = rng.choice([0.0, 0.5, 1.0])
        s['p_kill_while_starting'] = rng.choice([0.0, 0.1, 0.3])
        if rng.random() < 0.15:
            cfg['armed_first_start'] = [rng.randrange(cfg['n_voters']), rng.choice([1, 1, 2, 3, 4]), rng.choice(['before', 'after', 'torn']), rng.choice([0.1, 0.5, 0.9])]
        s['max_down'] = rng.choice([1, 2, None, None])
        s['orphan_children'] = rng.random() < 0.5
        s['w_part'] = rng.choice([0.0, 0.004])
        return cfg

    def make_oracle(self, world, app):
        return C06Oracle(world, app)

    def make_tap(self, world, oracle):
        return C06Tap(world, oracle)

    def make_sched(self, world, rng, cfg):
        return C06Sched(world, rng, cfg)

    def quiet(self, w, orc, sch, apply):
        """Restart everything, let the cluster converge, then every SUCCESS must be applied everywhere."""
        for h in w.hosts:
            if h.node is None and h.member:
                apply([0.0, 'start', h.idx])
        before = len(orc.violations)
        c05.SPEC.quiet(w, orc, sch, apply)
        conv_failed = any(v.inv in c05.INVARIANTS for v in orc.violations[before:])
        if conv_failed:
            w.probe('final_convergence_failed')
            return
        for tag in orc.success_tags:
            pos = orc.Gtag.get(tag)
            for h in w.hosts:
                if h.node is None:
                    continue
                if pos is None or h.node.raftLastApplied < pos:
                    orc.flag('success_lost', 'command %r was acknowledged with SUCCESS (position %r) but host %d has applied only up to %d after the final quiet period' % (
                        tag, pos, h.idx, h.node.raftLastApplied))
                    return

    def nontrivial(self, res):
        return res['faults'].get('kill_at_storage_op', 0) > 0 and res['summary'].get('restarts_with_nonempty_journal', 0) > 0


SPEC = C06Spec()
run = make_run(SPEC)


def match_known(k, viol, events, cfg):
    m = k.get('match', {})
    d = viol.get('detail') or {}
    if m.get('kind') == 'kill_in_function':
        kill = d.get('kill')
        return bool(kill and any(m['function'] in f for f in (kill[4] if len(kill) > 4 else [])))
    if m.get('kind') == 'config':
        return all(cfg.get(a) == b for a, b in m.get('cfg', {}).items()) and \
            all(cfg['conf'].get(a) == b for a, b in m.get('conf', {}).items())
    if m.get('kind') == 'after_vote_or_term_alarm':
        return d.get('after_vote_or_term_alarm') is not None
    return False
