"""Shared pieces of the per-property modules."""
from ..cluster import run_cluster, Spec
from ..sched import draw_common, Scheduler, DEFAULT_SCHED, apply_churn, apply_guide_stale_ack

REAL_CLUSTER = ['pysyncobj.syncobj.SyncObj (Raft core, apply loop, compaction)', 'pysyncobj.transport.TCPTransport',
                'pysyncobj.tcp_connection.TcpConnection (framing, buffers, timeouts)', 'pysyncobj.tcp_server.TcpServer',
                'pysyncobj.journal (MemoryJournal/FileJournal/ResizableFile/MetaStorer)', 'pysyncobj.serializer.Serializer',
                'pysyncobj.fast_queue', 'pysyncobj.pickle', 'pysyncobj.node', 'pysyncobj.config',
                'pysyncobj.poller.PollPoller / SelectPoller (3 of 4 runs, over a simulated select module)']
STUB_CLUSTER = ['socket module (SimNet byte pipes)', 'select module (simulated select()/poll() over SimNet readiness, descriptor numbers re-used like a kernel in half of the runs); 1 run in 4 uses the stand-in SimPoller instead of the repository\'s pollers', 'monotonic/time (virtual clock)',
                'random (seeded per node incarnation)', 'DNS resolver (identity)', 'open/os/mmap/shutil/gzip-mtime (SimFS)',
                'os.fork/waitpid/_exit (two-pass fork emulation)', 'PipeNotifier disabled (supported no-fcntl path)',
                'threading: none, nodes are ticked by the scheduler (autoTick=False)']
ASSUME_CLUSTER = ['TCP semantics of SimNet: per-connection FIFO, no duplication/corruption, Linux order of error visibility',
                  'a node tick (_onTick(0.0)) is atomic with respect to other nodes (nodes share no memory)',
                  'PYTHONHASHSEED=0 (set order of Node objects is fixed per run)',
                  'seeded sampling: a clean batch is evidence, not proof']


def quiet_round(w, apply, period=0.05, drain_iters=24):
    """One round of the quiet period: every node ticks once (timely ticks), fork children
    finish, pending connects resolve, and the network drains: bytes are delivered and the
    readers are ticked promptly until the pipes are empty (a reader that is woken by
    incoming data, as with a real poll loop; socket capacity does not limit bandwidth)."""
    first = True
    for h in w.hosts:
        if h.node is not None:
            apply([period if first else 0.0, 'tick', h.idx])
            first = False
    for h in w.hosts:
        while h.forkemu.pending_children():
            apply([0.0, 'child', h.idx])
    for cid in list(w.net.pending):
        c = w.net.pending.get(cid)
        if c is None:
            continue
        if c.shost is not None and w.blocked(c.chost, c.shost):
            # black-holed: the SYN gets no answer until the OS gives up
            if w.T - c.t_start > w.cfg.get('sched', {}).get('connect_timeout', 8.0):
                apply([0.0, 'conn', cid, 'timeout'])
            continue
        slow = getattr(w, 'slow_pairs', None)
        if slow and (c.chost, c.shost) in slow and w.T - c.t_start < slow[(c.chost, c.shost)]:
            continue        # a handshake that takes its time (lost SYNs are re-sent after 1 s, 3 s, ...)
        apply([0.0, 'conn', cid, 'ok' if (c.shost is not None and (c.shost, c.port) in w.net.listeners) else 'refuse'])
    for it in range(drain_iters):
        live = w.net.live_pipes()
        wake = []
        for pid in live:
            p = w.net.pipes.get(pid)
            if p is not None and p.reader.host not in wake:
                wake.append(p.reader.host)
            apply([0.0, 'dlv', pid, 0])
        # a node whose connection still has bytes in its userspace write buffer is woken as soon
        # as its socket is writable again
        for h in w.hosts:
            n = h.node
            if n is None or h.idx in wake:
                continue
            tr = n._SyncObj__transport
            for c in tr._connections.values():
                if c.getSendBufferSize() > 0:
                    wake.append(h.idx)
                    break
        if not wake:
            break
        if it >= 1 or not live:
            for i in sorted(wake):
                if w.hosts[i].node is not None:
                    apply([0.0, 'tick', i])


def make_run(spec):
    def run(seed, tier, cfg=None, events=None):
        return run_cluster(seed, spec, cfg=cfg, events=events, tier=tier)
    return run


def fixed_prefix(events):
    k = 0
    for ev in events:
        if ev[1] == 'start':
            k += 1
        else:
            break
    return k
