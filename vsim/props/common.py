"""Shared pieces of the per-property modules."""
from ..cluster import run_cluster, Spec
from ..sched import draw_common, Scheduler, DEFAULT_SCHED

REAL_CLUSTER = ['pysyncobj.syncobj.SyncObj (Raft core, apply loop, compaction)', 'pysyncobj.transport.TCPTransport',
                'pysyncobj.tcp_connection.TcpConnection (framing, buffers, timeouts)', 'pysyncobj.tcp_server.TcpServer',
                'pysyncobj.journal (MemoryJournal/FileJournal/ResizableFile/MetaStorer)', 'pysyncobj.serializer.Serializer',
                'pysyncobj.fast_queue', 'pysyncobj.pickle', 'pysyncobj.node', 'pysyncobj.config']
STUB_CLUSTER = ['socket module (SimNet byte pipes)', 'poller (SimPoller over SimNet readiness)', 'monotonic/time (virtual clock)',
                'random (seeded per node incarnation)', 'DNS resolver (identity)', 'open/os/mmap/shutil/gzip-mtime (SimFS)',
                'os.fork/waitpid/_exit (two-pass fork emulation)', 'PipeNotifier disabled (supported no-fcntl path)',
                'threading: none, nodes are ticked by the scheduler (autoTick=False)']
ASSUME_CLUSTER = ['TCP semantics of SimNet: per-connection FIFO, no duplication/corruption, Linux order of error visibility',
                  'a node tick (_onTick(0.0)) is atomic with respect to other nodes (nodes share no memory)',
                  'PYTHONHASHSEED=0 (set order of Node objects is fixed per run)',
                  'seeded sampling: a clean batch is evidence, not proof']


def make_run(spec):
    def run(seed, tier, cfg=None, events=None):
        return run_cluster(seed, spec, cfg=cfg, events=events, tier=tier)
    return run


def fixed_prefix(events):
    k = 0
    for ev in events:
        if ev[1] == 'start':
            k += 1
        else:
            break
    return k
