"""C15 Batteries behave like the Python containers they mimic, on every replica.

(i) direct mode (_doApply=True): plain model-based random testing of every public
method against int/list/dict/set/deque/heapq - no schedule in it, reported as such.
(ii) replicated mode: the same operation mix through a cluster with compaction,
snapshot installs and journaled restarts; callback results are compared with the
model's result at the command's position in the common sequence and all replicas
must end up equal.
"""
import random
import heapq
import hashlib
import collections
import time as _time

from .common import *
from . import c01, c05
from ..oracle import INV_PROP, RaftOracle
from ..workload import KVApp, get_classes
from ..boot import CTX, M, install, priv, HarnessError

PROP = 'C15'
LEVEL = 'exploration'
OWN = ('direct_result_mismatch', 'direct_content_mismatch', 'repl_result_mismatch', 'repl_replicas_differ', 'repl_state_mismatch')
INVARIANTS = OWN + ('state_mismatch', 'success_wrong_result')
for _i in OWN:
    INV_PROP[_i] = PROP
RULE = ('direct cases: one seeded sequence of 20-150 operations over all public methods of ReplCounter, ReplList, ReplDict, '
        'ReplSet, ReplQueue(maxsize 0-3) and ReplPriorityQueue(maxsize 0-3) with arguments from small domains, executed with '
        '_doApply=True and compared (result or exception type, and contents) with int/list/dict/set/deque/heapq after every '
        'operation; replicated cases: the same mix submitted through a 2-4 voter cluster with compaction, snapshot installs and '
        '(journal+dump) restarts; distinct = distinct digest of operations and outcomes; non-trivial = direct: at least one '
        'miss/empty/bound outcome (exception, default returned, put refused) occurred; replicated: at least one snapshot was '
        'loaded (install or restart) between operations and at least 20 operations were committed')
COMPONENTS_REAL = REAL_CLUSTER + ['pysyncobj.batteries (ReplCounter, ReplList, ReplDict, ReplSet, ReplQueue, ReplPriorityQueue)']
COMPONENTS_STUB = STUB_CLUSTER
ASSUMPTIONS = ASSUME_CLUSTER + ['part (i) has no schedule, clock or fault in it: it is input enumeration run next to the simulator',
                                'ReplQueue/ReplPriorityQueue.full() is compared only for maxsize >= 1 ("bounded"); ReplSet.pop() must return A member '
                                '(arbitrary element) and replicas must stay equal; ReplDict.pop/setdefault use the documented signatures']
BUDGET = dict(quick=dict(runs=1600, wall=80, per_run_wall=60), thorough=dict(runs=100000, wall=900, per_run_wall=120))
WANTS_K = True
VALS = [0, 1, 2, 3, 5, -1]
KEYS = ['a', 'b', 'c', 1, 2]


# ---------------------------------------------------------------------------------------------
# reference models: (state, op) -> (new_state, result | ('exc', ExceptionType))
# ---------------------------------------------------------------------------------------------
def _exc(e):
    return ('exc', type(e).__name__)


def model_step(kind, st, op, maxsize=0):
    name, args = op[0], list(op[1:])
    try:
        if kind == 'counter':
            if name == 'set':
                return args[0], args[0]
            if name == 'add':
                return st + args[0], st + args[0]
            if name == 'sub':
                return st - args[0], st - args[0]
            if name == 'inc':
                return st + 1, st + 1
            if name == 'get':
                return st, st
        if kind == 'list':
            l = list(st)
            if name == 'reset':
                return list(args[0]), None
            if name in ('set', '__setitem__'):
                l[args[0]] = args[1]
                return l, None
            if name == 'append':
                l.append(args[0])
                return l, None
            if name == 'extend':
                l.extend(args[0])
                return l, None
            if name == 'insert':
                l.insert(args[0], args[1])
                return l, None
            if name == 'remove':
                l.remove(args[0])
                return l, None
            if name == 'pop':
                r = l.pop(*args)
                return l, r
            if name == 'sort':
                l.sort(reverse=args[0])
                return l, None
            if name == 'index':
                return l, l.index(args[0])
            if name == 'count':
                return l, l.count(args[0])
            if name in ('get', '__getitem__'):
                return l, l[args[0]]
            if name == '__len__':
                return l, len(l)
        if kind == 'dict':
            d = dict(st)
            if name == 'reset':
                return dict(args[0]), None
            if name in ('set', '__setitem__'):
                d[args[0]] = args[1]
                return d, None
            if name == 'setdefault':
                r = d.setdefault(args[0], args[1])
                return d, r
            if name == 'update':
                d.update(args[0])
                return d, None
            if name == 'pop':
                r = d.pop(args[0], args[1] if len(args) > 1 else None)
                return d, r
            if name == 'clear':
                return {}, None
            if name == '__getitem__':
                return d, d[args[0]]
            if name == 'get':
                return d, d.get(*args)
            if name == '__len__':
                return d, len(d)
            if name == '__contains__':
                return d, args[0] in d
            if name == 'keys':
                return d, sorted(d.keys(), key=repr)
            if name == 'values':
                return d, sorted(d.values(), key=repr)
            if name == 'items':
                return d, sorted(d.items(), key=repr)
        if kind == 'set':
            s = set(st)
            if name == 'reset':
                return set(args[0]), None
            if name == 'add':
                s.add(args[0])
                return s, None
            if name == 'remove':
                s.remove(args[0])
                return s, None
            if name == 'discard':
                s.discard(args[0])
                return s, None
            if name == 'pop':
                if not s:
                    raise KeyError('pop from an empty set')
                return s, ('member',)       # which member is decided by the implementation
            if name == 'clear':
                return set(), None
            if name == 'update':
                s.update(args[0])
                return s, None
            if name == '__len__':
                return s, len(s)
            if name == '__contains__':
                return s, args[0] in s
        if kind == 'queue':
            q = list(st)
            if name == 'put':
                if maxsize and len(q) >= maxsize:
                    return q, False
                q.append(args[0])
                return q, True
            if name == 'get':
                if not q:
                    return q, (args[0] if args else None)
                return q[1:], q[0]
            if name in ('qsize', '__len__'):
                return q, len(q)
            if name == 'empty':
                return q, len(q) == 0
            if name == 'full':
                return q, (len(q) == maxsize) if maxsize >= 1 else ('any',)
        if kind == 'pqueue':
            q = list(st)
            if name == 'put':
                if maxsize and len(q) >= maxsize:
                    return q, False
                heapq.heappush(q, args[0])
                return q, True
            if name == 'get':
                if not q:
                    return q, (args[0] if args else None)
                r = heapq.heappop(q)
                return q, r
            if name in ('qsize', '__len__'):
                return q, len(q)
            if name == 'empty':
                return q, len(q) == 0
            if name == 'full':
                return q, (len(q) == maxsize) if maxsize >= 1 else ('any',)
    except Exception as e:
        return st, _exc(e)
    raise HarnessError('C15 model: unknown op %r on %s' % (op, kind))


INIT = dict(counter=0, list=[], dict={}, set=set(), queue=[], pqueue=[])
MUTATORS = dict(counter=('set', 'add', 'sub', 'inc'),
                list=('reset', 'set', 'append', 'extend', 'insert', 'remove', 'pop', 'sort', '__setitem__'),
                dict=('reset', '__setitem__', 'set', 'setdefault', 'update', 'pop', 'clear'),
                set=('reset', 'add', 'remove', 'discard', 'pop', 'clear', 'update'),
                queue=('put', 'get'), pqueue=('put', 'get'))
READERS = dict(counter=('get',), list=('index', 'count', 'get', '__getitem__', '__len__'),
               dict=('__getitem__', 'get', '__len__', '__contains__', 'keys', 'values', 'items'),
               set=('__len__', '__contains__'), queue=('qsize', 'empty', 'full', '__len__'), pqueue=('qsize', 'empty', 'full', '__len__'))


def gen_op(rng, kind, replicated_only=False, allow_v1=True):
    names = MUTATORS[kind] if replicated_only else MUTATORS[kind] + READERS[kind]
    if not allow_v1:
        names = tuple(n for n in names if not (kind == 'list' and n == '__setitem__'))
    n = rng.choice(names)
    v = lambda: rng.choice(VALS)
    k = lambda: rng.choice(KEYS)
    pos = lambda: rng.choice([0, 1, 2, -1, 5])
    if kind == 'counter':
        return [n] + ([v()] if n in ('set', 'add', 'sub') else [])
    if kind == 'list':
        if n == 'reset':
            return [n, [v() for _ in range(rng.randrange(4))]]
        if n in ('set', '__setitem__'):
            return [n, pos(), v()]
        if n == 'append':
            return [n, v()]
        if n == 'extend':
            # any iterable, as list.extend takes
            items = [v() for _ in range(rng.randrange(3))]
            # (elements stay integers: a failed sort of a mixed list leaves an unspecified order behind)
            return [n, rng.choice([items, items, tuple(items), dict.fromkeys(items, 1)])]
        if n == 'insert':
            return [n, pos(), v()]
        if n in ('remove', 'index', 'count'):
            return [n, v()]
        if n == 'pop':
            return [n] if rng.random() < 0.5 else [n, pos()]
        if n == 'sort':
            return [n, rng.random() < 0.5]
        if n in ('get', '__getitem__'):
            return [n, pos()]
        return [n]
    if kind == 'dict':
        if n == 'reset':
            return [n, dict((k(), v()) for _ in range(rng.randrange(3)))]
        if n in ('__setitem__', 'set', 'setdefault'):
            return [n, k(), v()]
        if n == 'update':
            d = dict((k(), v()) for _ in range(rng.randrange(3)))
            # a mapping or an iterable of pairs, as dict.update takes
            return [n, rng.choice([d, d, list(d.items()), tuple(d.items())])]
        if n == 'pop':
            return [n, k()] if rng.random() < 0.5 else [n, k(), v()]
        if n in ('__getitem__', '__contains__'):
            return [n, k()]
        if n == 'get':
            return [n, k()] if rng.random() < 0.5 else [n, k(), v()]
        return [n]
    if kind == 'set':
        if n == 'reset':
            return [n, set(v() for _ in range(rng.randrange(4)))]
        if n in ('add', 'remove', 'discard', '__contains__'):
            return [n, rng.choice(VALS + [8, 9, 16, 17, 33])]
        if n == 'update':
            items = set(rng.choice(VALS + [8, 16, 24, 32, 40, 48]) for _ in range(rng.randrange(8)))
            # any iterable, as set.update takes
            return [n, rng.choice([items, items, sorted(items), tuple(sorted(items)), frozenset(items), dict.fromkeys(sorted(items), 0)])]
        return [n]
    if kind in ('queue', 'pqueue'):
        if n == 'put':
            return [n, v()]
        if n == 'get':
            return [n] if rng.random() < 0.5 else [n, 'dflt']
        return [n]
    raise HarnessError(kind)


def jsonable(op):
    out = []
    for a in op:
        if isinstance(a, frozenset):
            out.append({'__frozenset__': sorted(a)})
        elif isinstance(a, set):
            out.append({'__set__': sorted(a)})
        elif isinstance(a, tuple):
            out.append({'__tuple__': jsonable(a)})
        elif isinstance(a, list):
            out.append(jsonable(a))
        elif isinstance(a, dict):
            out.append({'__dict__': [[k, v] for k, v in a.items()]})
        else:
            out.append(a)
    return out


def unjson(op):
    out = []
    for a in op:
        if isinstance(a, dict) and '__set__' in a:
            out.append(set(a['__set__']))
        elif isinstance(a, dict) and '__frozenset__' in a:
            out.append(frozenset(a['__frozenset__']))
        elif isinstance(a, dict) and '__tuple__' in a:
            out.append(tuple(unjson(a['__tuple__'])))
        elif isinstance(a, list):
            out.append(unjson(a))
        elif isinstance(a, dict) and '__dict__' in a:
            out.append(dict((k, v) for k, v in a['__dict__']))
        else:
            out.append(a)
    return out


def make_batteries(maxq, maxp):
    bt = M.bt
    return dict(counter=bt.ReplCounter(), list=bt.ReplList(), dict=bt.ReplDict(), set=bt.ReplSet(),
                queue=bt.ReplQueue(maxq), pqueue=bt.ReplPriorityQueue(maxp))


def contents(kind, obj):
    if kind == 'counter':
        return obj.get()
    if kind in ('list', 'dict', 'set'):
        d = obj.rawData()
        return set(d) if kind == 'set' else (dict(d) if kind == 'dict' else list(d))
    if kind == 'queue':
        return list(priv(obj, 'ReplQueue', 'data'))
    if kind == 'pqueue':
        return sorted(priv(obj, 'ReplPriorityQueue', 'data'))
    raise HarnessError(kind)


def norm_content(kind, st):
    return sorted(st) if kind == 'pqueue' else st


def results_agree(kind, name, got, want, before):
    """got: value or ('exc', Type); want from the model."""
    if isinstance(want, tuple) and want == ('any',):
        return True
    if isinstance(want, tuple) and want == ('member',):
        return not (isinstance(got, tuple) and got and got[0] == 'exc') and got in before
    if kind == 'dict' and name in ('keys', 'values', 'items') and not (isinstance(got, tuple) and got and got[0] == 'exc'):
        got = sorted(got, key=repr)
    return type(got) == type(want) and got == want


# ---------------------------------------------------------------------------------------------
# (i) direct mode
# ---------------------------------------------------------------------------------------------
def run_direct(seed, cfg, ops):
    t0 = _time.time()
    install()
    rng = random.Random(seed)
    if cfg is None:
        cfg = dict(mode='direct', maxq=rng.choice([0, 1, 2, 3]), maxp=rng.choice([0, 1, 2, 3]), n=rng.choice([20, 60, 150]))
    if ops is None:
        ops = []
        for _ in range(cfg['n']):
            kind = rng.choice(list(INIT))
            ops.append([kind] + jsonable(gen_op(rng, kind)))
    objs = make_batteries(cfg['maxq'], cfg['maxp'])
    model = dict((k, (set(v) if isinstance(v, set) else (dict(v) if isinstance(v, dict) else (list(v) if isinstance(v, list) else v)))) for k, v in INIT.items())
    viol = []
    dig = hashlib.sha256()
    edge = 0
    n = 0
    for jop in ops:
        n += 1
        kind = jop[0]
        op = unjson(jop[1:])
        name, args = op[0], op[1:]
        maxsize = cfg['maxq'] if kind == 'queue' else cfg['maxp']
        before = model[kind]
        st2, want = model_step(kind, before, [name] + [(_copy(a)) for a in args], maxsize)
        obj = objs[kind]
        try:
            meth = getattr(obj, name)
            if name in MUTATORS[kind]:
                got = meth(*[_copy(a) for a in args], _doApply=True)
            else:
                got = meth(*[_copy(a) for a in args])
                if name in ('keys', 'values', 'items'):
                    got = list(got)
        except Exception as e:
            got = _exc(e)
        if (isinstance(want, tuple) and want and want[0] == 'exc') or want is False or (name == 'get' and args and want == args[-1]):
            edge += 1
        if not results_agree(kind, name, got, want, before if kind == 'set' else None):
            viol.append(dict(inv='direct_result_mismatch', prop=PROP, evno=n, detail=None,
                             msg='%s.%s(%s): battery gives %r, the Python container %r (contents before: %r)' % (
                                 kind, name, ', '.join(repr(a) for a in args), got, want, before)))
            break
        if isinstance(want, tuple) and want == ('member',):
            st2 = set(before)
            st2.discard(got)
        model[kind] = st2
        c = contents(kind, obj)
        if c != norm_content(kind, st2) or type(c) != type(norm_content(kind, st2)):
            viol.append(dict(inv='direct_content_mismatch', prop=PROP, evno=n, detail=None,
                             msg='after %s.%s(%s) the battery holds %r, the Python container %r' % (kind, name, ', '.join(repr(a) for a in args), c, st2)))
            break
        dig.update(repr((jop, got if not isinstance(got, set) else sorted(got))).encode())
    return dict(seed=seed, cfg=cfg, events=ops, n_events=n, sim_time=0.0, digest=dig.hexdigest(), violations=viol, cross=[],
                probes=dict(direct_ops=n, direct_edge_outcomes=edge), faults={}, net={}, summary=dict(direct_ops=n), n_tick_exc=0, tick_exc=[],
                states=set(), aborted=None, wall=_time.time() - t0, nontrivial=edge > 0)


def _copy(a):
    if isinstance(a, list):
        return list(a)
    if isinstance(a, dict):
        return dict(a)
    if isinstance(a, set):
        return set(a)
    return a


# ---------------------------------------------------------------------------------------------
# (ii) replicated mode
# ---------------------------------------------------------------------------------------------
KINDS = ['counter', 'list', 'dict', 'set', 'queue', 'pqueue']


class _Unknown(object):
    """Compares equal to anything (content not predictable by the reference)."""

    def __eq__(self, other):
        return True

    def __ne__(self, other):
        return False

    def __hash__(self):
        return 0

    def __repr__(self):
        return '<unknown>'


UNKNOWN = _Unknown()


class BattModel(object):
    INIT = None

    def __init__(self, maxq, maxp):
        self.maxq, self.maxp = maxq, maxp
        self.INIT = tuple((set(INIT[k]) if k == 'set' else (dict(INIT[k]) if k == 'dict' else (list(INIT[k]) if isinstance(INIT[k], list) else INIT[k]))) for k in KINDS)

    def step(self, state, name, args):
        # name = (consumer index, method) for batteries
        if not isinstance(name, tuple):
            return state, None, False
        ci, meth = name
        kind = KINDS[ci]
        cur = state[ci]
        if cur is UNKNOWN:
            # the set's content is unknown to the reference since an earlier pop(): only operations
            # that define the whole content make it known again
            if meth == 'reset':
                return state[:ci] + (set(args[0]),) + state[ci + 1:], None, False
            if meth == 'clear':
                return state[:ci] + (set(),) + state[ci + 1:], None, False
            return state, UNKNOWN, False
        st2, res = model_step(kind, cur, [meth] + [_copy(a) for a in args], self.maxq if kind == 'queue' else self.maxp)
        raised = isinstance(res, tuple) and len(res) == 2 and res[0] == 'exc'
        if isinstance(res, tuple) and res == ('member',):
            # ReplSet.pop(): which member goes is up to the implementation; from here on the
            # reference does not know the set's content (replicas are compared with each other)
            return state[:ci] + (UNKNOWN,) + state[ci + 1:], res, False
        new = state[:ci] + (st2,) + state[ci + 1:]
        return new, res, raised

    def observe(self, node):
        cons = priv(node, 'SyncObj', 'consumers')
        # the priority queue is compared as the raw heap list (same algorithm, same history => same list)
        return tuple((list(priv(cons[i], 'ReplPriorityQueue', 'data')) if KINDS[i] == 'pqueue' else contents(KINDS[i], cons[i]))
                     for i in range(len(KINDS)))


class BattApp(KVApp):
    def __init__(self, cfg):
        KVApp.__init__(self, cfg)
        self.model = BattModel(cfg['maxq'], cfg['maxp'])

    def make_consumers(self, world, host):
        b = make_batteries(self.cfg['maxq'], self.cfg['maxp'])
        return [b[k] for k in KINDS]

    def make_node(self, world, host):
        node = KVApp.make_node(self, world, host)
        cons = priv(node, 'SyncObj', 'consumers')
        if not isinstance(next(iter(self.idmap.values()), None), tuple) or True:
            m = {}
            for fid, meth in node._idToMethod.items():
                owner = getattr(meth, '__self__', None)
                nm = meth.__name__.rsplit('_v', 1)[0]
                if owner is node:
                    m[fid] = nm
                else:
                    m[fid] = (cons.index(owner), nm)
            self.idmap = m
            self.param_names = {}
            import inspect
            for ci, c in enumerate(cons):
                for nm in dir(type(c)):
                    f = getattr(type(c), nm, None)
                    if callable(f) and not nm.startswith('_SyncObj'):
                        try:
                            self.param_names[(ci, nm)] = [p for p in inspect.signature(f).parameters][1:]
                        except (TypeError, ValueError):
                            pass
        return node

    def decode(self, cmd):
        """Keyword arguments of a battery call are put back into positional order for the reference."""
        d = KVApp.decode(self, cmd)
        if d[0] == 'regular' and d[3] and isinstance(d[1], tuple):
            names = getattr(self, 'param_names', {}).get(d[1])
            if names:
                args = list(d[2])
                for n in names[len(args):]:
                    if n in d[3]:
                        args.append(d[3][n])
                    else:
                        break
                return ('regular', d[1], tuple(args), {})
        return d

    def submit_other(self, world, host, args, cb):
        # args = ['batt', tag, kind, name, *jsonargs]
        tag, kind, name = args[1], args[2], args[3]
        a = unjson(args[4:])
        cons = priv(host.node, 'SyncObj', 'consumers')
        obj = cons[KINDS.index(kind)]
        pos, kw = split_call(obj, name, [_copy(x) for x in a], tag)
        getattr(obj, name)(*pos, callback=cb, **kw)
        return 'ok'


def split_call(obj, name, args, tag):
    """The same call in another legal form: one call in three passes its trailing arguments by keyword (all but the
    first, or all of them), using the parameter names of the battery's method."""
    import inspect
    if tag % 3 == 0 or not args:
        return args, {}
    try:
        names = [p for p in inspect.signature(getattr(type(obj), name)).parameters][1:]
    except (TypeError, ValueError):
        return args, {}
    if len(names) < len(args) or any(n.startswith('_') or n in ('args', 'kwargs') for n in names[:len(args)]):
        return args, {}
    k = 1 if (tag % 3 == 1 and len(args) > 1) else 0
    return args[:k], dict(zip(names[k:len(args)], args[k:]))


class BattOracle(RaftOracle):
    """Commands carry no tag of their own: they are identified by position. Results delivered to
    callbacks are matched through the submission order per (host, kind, name, args)."""

    def __init__(self, world, app):
        RaftOracle.__init__(self, world, app)
        self.check_log_matching = False
        self.ops = {}              # tag -> (kind, [name, args...])
        self.at_pos = {}           # applied position -> (observed batteries, host)
        self.pending_results = []

    def _index_G(self, p, e):
        d = self.app.decode(e[0])
        self.Gdec[p] = d

    def after_event(self, ev, out, touched):
        if ev[1] == 'sub' and ev[3] == 'batt':
            self.ops[ev[4]] = (ev[5], unjson(ev[6:]))
        RaftOracle.after_event(self, ev, out, touched)
        # replicas observed at the same applied position must be equal (this is what catches a
        # container whose behaviour depends on its internal layout, e.g. set.pop())
        if touched is not None:
            h = self.w.hosts[touched]
            n = h.node
            if n is not None and len(priv(n, 'SyncObj', 'raftLog')):
                a = n.raftLastApplied
                cur = self.app.model.observe(n)
                seen = self.at_pos.get(a)
                if seen is None:
                    self.at_pos[a] = (cur, h.idx)
                elif seen[0] != cur:
                    self.flag('repl_replicas_differ', 'hosts %d and %d have both applied exactly %d positions but their batteries differ: %r vs %r' % (
                        seen[1], h.idx, a, _diff(seen[0], cur), _diff(cur, seen[0])))

    def _callbacks(self, cbs):
        FR = M.cf.FAIL_REASON
        for tag, res, err, idx, pos in cbs:
            lst = self.cbs.setdefault(tag, [])
            lst.append((res, err, self.w.evno))
            if err != FR.SUCCESS:
                continue
            self.success_tags[tag] = res
            op = self.ops.get(tag)
            if op is None or pos is None:
                continue
            kind, (name, args) = op[0], (op[1][0], op[1][1:])
            self.pending_results.append((tag, pos, kind, name, args, res, idx))
        # evaluated once the reference has reached the position
        rest = []
        for item in self.pending_results:
            tag, pos, kind, name, args, res, idx = item
            if not self._extend_model(pos):
                rest.append(item)
                continue
            d = self.Gdec.get(pos)
            if d is None or d[0] != 'regular' or d[1] != (KINDS.index(kind), name):
                self.flag('repl_result_mismatch', 'SUCCESS for %s.%s%r was delivered on host %d while it applied position %d, which holds %r' % (kind, name, tuple(args), idx, pos, d and d[1]))
                continue
            want = self.results.get(pos)
            if want is UNKNOWN:
                continue
            got = _exc(res) if isinstance(res, Exception) else res
            before = self.states.get(pos - 1)
            bset = before[KINDS.index('set')] if before is not None else None
            if not results_agree(kind, name, got, want, bset if bset is not UNKNOWN else None) and not (want == ('member',) and bset is UNKNOWN):
                self.flag('repl_result_mismatch', '%s.%s%r committed at position %d: the callback got %r, the Python container gives %r' % (kind, name, tuple(args), pos, got, want))
        self.pending_results = rest


def _diff(a, b):
    return dict((KINDS[i], a[i]) for i in range(len(KINDS)) if a[i] != b[i])


class BattSched(Scheduler):
    def make_submit(self):
        w, rng = self.w, self.rng
        ups = [h.idx for h in w.hosts if h.node is not None]
        if not ups:
            return None
        lead = self.leader_idx()
        i = lead if (lead is not None and rng.random() < 0.6) else rng.choice(ups)
        kind = rng.choice(KINDS)
        v1 = w.hosts[i].node.getCodeVersion() >= 1
        op = gen_op(rng, kind, replicated_only=True, allow_v1=v1)
        tag = self.next_tag
        self.next_tag += 1
        self.nsubs += 1
        return ['sub', i, 'batt', tag, kind] + jsonable(op)


class C15Spec(c01.C01Spec):
    churn_share = 0
    prop = PROP
    invariants = INVARIANTS

    def draw(self, rng, tier='quick'):
        cfg = c01.C01Spec.draw(self, rng, tier)
        cfg['mode'] = 'replicated'
        cfg['n_voters'] = rng.choice([2, 3, 3, 4])
        cfg['maxq'] = rng.choice([0, 1, 2, 3])
        cfg['maxp'] = rng.choice([0, 1, 2, 3])
        conf = cfg['conf']
        conf['logCompactionMinEntries'] = rng.choice([2, 5, 10])
        conf['logCompactionMinTime'] = rng.choice([0.5, 2])
        conf['logCompactionBatchSize'] = rng.choice([64, 1024, 1 << 16])
        s = cfg['sched']
        s['steps'] = 2500
        s['max_subs'] = 120
        s['w_sub'] = 0.8
        s['w_part'] = rng.choice([0.0, 0.004])
        s['w_hold'] = rng.choice([0.02, 0.05])
        s['w_compact'] = rng.choice([0.01, 0.05])
        if rng.random() < 0.5:
            conf['journal'] = True
            conf['dump'] = True
            conf['useFork'] = rng.random() < 0.3
            s['w_kill'] = rng.choice([0.005, 0.02])
            s['w_start'] = 0.5
            s['max_down'] = 1
            cfg['placement'] = 'journal+dump'
        return cfg

    def make_app(self, cfg):
        return BattApp(cfg)

    def make_oracle(self, world, app):
        return BattOracle(world, app)

    def make_sched(self, world, rng, cfg):
        return BattSched(world, rng, cfg)

    def quiet(self, w, orc, sch, apply):
        for h in w.hosts:
            if h.node is None and h.member:
                apply([0.0, 'start', h.idx])
        before = len(orc.violations)
        c05.SPEC.quiet(w, orc, sch_proxy(sch, w), apply)
        if any(v.inv in c05.INVARIANTS for v in orc.violations[before:]):
            w.probe('final_convergence_failed')
            return
        sts = {}
        for h in w.hosts:
            if h.node is not None:
                obs = orc.app.model.observe(h.node)
                canon = tuple((sorted(x, key=repr) if isinstance(x, set) else x) for x in obs)
                sts.setdefault(repr((h.node.raftLastApplied, canon)), []).append(h.idx)
        if len(sts) != 1:
            orc.flag('repl_replicas_differ', 'after the quiet period the replicas of the batteries differ: %r' % (sorted(sts.items())[:3],))

    def nontrivial(self, res):
        p = res['probes']
        return (p.get('snapshot_install', 0) + p.get('dump_load_on_start', 0)) > 0 and res['summary'].get('commits', 0) >= 20


class sch_proxy(object):
    """The C05 quiet period submits one ordinary command per node; with batteries that is a counter increment."""

    def __init__(self, sch, w):
        self._s = sch
        self.held = sch.held

    @property
    def next_tag(self):
        return self._s.next_tag

    @next_tag.setter
    def next_tag(self, v):
        self._s.next_tag = v

    def leader_idx(self):
        return self._s.leader_idx()


SPEC = C15Spec()


def run(seed, tier, cfg=None, events=None, k=None):
    mode = cfg.get('mode') if cfg else ('direct' if (k is None or k % 4 != 3) else 'replicated')
    if mode == 'direct':
        return run_direct(seed, cfg, events)
    return run_cluster(seed, SPEC, cfg=cfg, events=events, tier=tier)
