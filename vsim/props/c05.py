"""C05 After faults stop the cluster converges: one leader, progress, equal replicas."""
from .common import *
from . import c01
from ..oracle import INV_PROP, LEADER, log_of
from ..boot import priv

PROP = 'C05'
LEVEL = 'exploration'
INVARIANTS = ('no_convergence', 'no_progress', 'replicas_differ', 'laggard_offered_no_snapshot')
# (reported by this check too, owned by C09: a node whose log has a hole behind its applied position stays behind for good)
SHARED = ('log_gap',)
for _i in INVARIANTS:
    INV_PROP[_i] = PROP
RULE = ('one case = a fault phase drawn from the C01 schedule space (partitions, resets, holds, stalls, stale leaders, '
        'compactions on any node, lagging followers needing a snapshot, 0-2 read-only nodes) followed by a quiet period: '
        'all faults stop, every node ticks every 50 ms of virtual time, bytes are delivered promptly; bounded liveness is '
        'evaluated only in the quiet period: within B = reconnect budget + 40 * raftMaxTimeout there is exactly one leader, '
        'one command submitted on every node afterwards is acknowledged with SUCCESS, and all replicas reach the same applied '
        'position and an identical state; distinct = distinct event/state log digest; non-trivial = the fault phase fired at '
        'least 2 fault kinds and the quiet phase was reached')
COMPONENTS_REAL = REAL_CLUSTER
COMPONENTS_STUB = STUB_CLUSTER
ASSUMPTIONS = ASSUME_CLUSTER + ['the bound B is computed from the run configuration: connectionRetryTime + connectionTimeout + modelled OS connect '
                                'timeout + 40 election rounds; 40 rounds make a legitimate miss by repeated split votes negligible',
                                'no kills (memory is kept); C06 covers restarts']
BUDGET = dict(quick=dict(runs=480, wall=80, per_run_wall=60), thorough=dict(runs=40000, wall=900, per_run_wall=120))


def wedge(w):
    out = []
    for h in w.hosts:
        n = h.node
        if n is None:
            out.append('h%d:down' % h.idx)
            continue
        try:
            log = log_of(n)
            out.append('h%d:%s term=%d commit=%d applied=%d log=[%s..%s] conn=%d next=%s match=%s q=%d' % (
                h.idx, 'L' if n._isLeader() else ('ro' if h.readonly else 'f'), n.raftCurrentTerm, n.raftCommitIndex, n.raftLastApplied,
                log[0][1] if len(log) else None, log[-1][1] if len(log) else None, len(priv(n, 'SyncObj', 'connectedNodes')),
                sorted(priv(n, 'SyncObj', 'raftNextIndex').values()), sorted(priv(n, 'SyncObj', 'raftMatchIndex').values()),
                len(priv(priv(n, 'SyncObj', 'commandsQueue'), 'FastQueue', 'queue'))))
        except Exception as e:
            out.append('h%d:?%r' % (h.idx, e))
    return out


class CatchUpTap(object):
    """A leader whose log no longer reaches back to a follower's position has to send its snapshot.  'serialized: None'
    is what it sends while its own serializer is busy; sent while the serializer is idle it means that the leader has
    no snapshot at all: that follower stays behind for as long as this node leads."""

    def __init__(self, world, oracle):
        self.w = world
        self.o = oracle

    def on_send(self, src, node, msg, ok):
        if isinstance(msg, dict) and msg.get('type') == 'append_entries' and 'serialized' in msg and msg['serialized'] is None:
            h = self.w.hosts[src]
            n = h.node
            if n is None or h.doomed:
                return
            ser = priv(n, 'SyncObj', 'serializer')
            if priv(ser, 'Serializer', 'pid') == 0:
                self.w.probe('snapshot_missing_on_leader')
                self.o.flag('laggard_offered_no_snapshot', 'leader %d has to bring %s up to date by snapshot (its log starts at %d) but has none to send and is not writing one' % (
                    src, node.id, log_of(n)[0][1]))

    def on_recv(self, dst, node, msg):
        pass


class C05Spec(c01.C01Spec):
    churn_share = 0
    prop = PROP
    invariants = INVARIANTS + SHARED

    def draw(self, rng, tier='quick'):
        cfg = c01.C01Spec.draw(self, rng, tier)
        s = cfg['sched']
        cfg['n_ro'] = rng.choice([0, 0, 1, 2])
        s['steps'] = rng.choice([600, 1500, 3000])
        s['w_part'] = rng.choice([0.004, 0.01, 0.02])
        s['w_rst'] = rng.choice([0.02, 0.05])
        s['w_hold'] = rng.choice([0.02, 0.05])
        s['w_stall'] = rng.choice([0.0, 0.02])
        s['w_sub_ro'] = 1.0
        s['max_subs'] = 80
        conf = cfg['conf']
        conf['connectionRetryTime'] = rng.choice([0, 0.5, 2.0])
        # the fallback of a leader that hears no majority is part of "one stable leader": short values make it act
        # within a run (a leader that has a majority in the quiet period must never fall back)
        conf['leaderFallbackTimeout'] = rng.choice([30.0, 30.0, 2.0, 5.0, 10.0])
        if rng.random() < 0.35:
            # lagging followers that need a snapshot while every node compacts all the time: compaction of a node's own
            # log and the installation of a leader's snapshot meet in all orders (inline serializers finish in the next tick)
            conf['logCompactionMinEntries'] = rng.choice([2, 3, 5])
            conf['logCompactionMinTime'] = rng.choice([0.2, 0.5, 1 << 30])
            conf['logCompactionBatchSize'] = rng.choice([64, 200, 1024, 1 << 16])
            place = rng.choice(['memory', 'file'])
            conf['dump'] = place == 'file'
            conf['useFork'] = False
            cfg['placement'] = place
            s['w_compact'] = rng.choice([0.01, 0.05, 0.1])
            s['w_hold'] = rng.choice([0.02, 0.06])
            s['w_rst'] = rng.choice([0.03, 0.1, 0.2])
            s['w_part'] = rng.choice([0.0, 0.005])
            s['w_sub'] = rng.choice([0.35, 0.8])
            s['steps'] = rng.choice([2500, 4000])
            s['max_subs'] = 150
            cfg['n_voters'] = rng.choice([2, 3, 3, 4])
            conf['connectionRetryTime'] = rng.choice([0, 0, 0.5])
        elif rng.random() < 0.25:
            # snapshots only on request and kept in memory: a node that was brought up to date by a snapshot keeps
            # what it received as its only snapshot and may later, as leader, have to pass it on to another laggard
            conf['logCompactionMinEntries'] = 1 << 30
            conf['logCompactionMinTime'] = 1 << 30
            conf['logCompactionBatchSize'] = rng.choice([64, 1024, 1 << 16])
            conf['dump'] = False
            conf['useFork'] = False
            cfg['placement'] = 'memory'
            cfg['n_voters'] = rng.choice([3, 4, 5])
            s['w_compact'] = rng.choice([0.002, 0.005])
            s['w_hold'] = rng.choice([0.05, 0.1])
            s['w_sub'] = rng.choice([0.35, 0.8])
            s['steps'] = rng.choice([2500, 4000])
            s['max_subs'] = 150
            # leaders change often (leader churn), followers lag behind trickling links
            apply_churn(rng, cfg)
            s['w_hold'] = rng.choice([0.05, 0.1])
        if cfg['n_voters'] >= 3 and rng.random() < 0.3:
            # the quiet period leaves a minority of the voters cut off (each alone): a bare or comfortable majority remains
            nv = cfg['n_voters']
            k = rng.choice([1, (nv - 1) // 2])
            cfg['quiet_cut_off'] = sorted(rng.sample(range(nv), k))
        return cfg

    def make_tap(self, world, oracle):
        return CatchUpTap(world, oracle)

    def bound(self, cfg):
        c = cfg['conf']
        return c['connectionRetryTime'] + 2 * c['connectionTimeout'] + cfg['sched']['connect_timeout'] + 40 * c['raftMaxTimeout'] + 2.0

    def quiet(self, w, orc, sch, apply):
        """Run the quiet period. `apply(ev)` executes one event; returns after the checks."""
        cfg = w.cfg
        B = self.bound(cfg)
        period = 0.05
        t_start = w.T
        w.probe('quiet_phase_reached')

        def round_():
            quiet_round(w, apply, period)

        # "a majority of members can exchange messages": in some runs a minority of the voters stays cut off (each alone) during
        # the quiet period; what is demanded then is demanded of the connected majority and the read-only nodes
        out = set(cfg.get('quiet_cut_off') or [])

        def converged():
            leaders = [h for h in w.hosts if h.node is not None and not h.readonly and h.idx not in out and h.node._isLeader()]
            if len(leaders) != 1:
                return False
            top = max(orc.G) if orc.G else 1
            L = leaders[0].node
            if L.raftCommitIndex < log_of(L)[-1][1]:
                return False
            for h in w.hosts:
                n = h.node
                if n is None or h.idx in out:
                    continue
                if n.raftLastApplied != L.raftLastApplied or n.raftLastApplied < top:
                    return False
                if n is not L:
                    # "exactly one leader": everybody is in the leader's term, follows it and is connected to it
                    if n.raftCurrentTerm != L.raftCurrentTerm or priv(n, 'SyncObj', 'raftState') != 0:
                        return False
                    if n._getLeader() != L.selfNode or not n.isNodeConnected(L.selfNode):
                        return False
            return True

        apply([0.0, 'heal'])
        sch.held = []
        if out:
            g = [0] * len(w.hosts)
            for k, i in enumerate(sorted(out)):
                g[i] = k + 1
            apply([0.0, 'part', g])
            w.probe('quiet_period_with_minority_cut_off')
        ok = False
        # "one leader" has to be stable: it must hold for two election timeouts in a row (right after a
        # reconnect a follower's election timer may still be about to fire, which is legitimate)
        stable_for = 2.0 * cfg['conf']['raftMaxTimeout']
        since = None
        while w.T - t_start < B:
            round_()
            if orc.violations and any(v.inv in self.invariants for v in orc.violations):
                return
            if converged():
                if since is None:
                    since = w.T
                if w.T - since >= stable_for:
                    ok = True
                    break
            else:
                since = None
        if not ok:
            orc.flag('no_convergence', 'no single leader with all replicas caught up within %.1f s of quiet time' % B, dict(wedge=wedge(w)))
            return
        w.probe('converged_after_s_x10', int((w.T - t_start) * 10))
        # progress: one command on every node, all must be acknowledged with SUCCESS
        tags = []
        for h in w.hosts:
            if h.node is None or h.idx in out:
                continue
            tag = sch.next_tag
            sch.next_tag += 1
            tags.append(tag)
            apply([0.0, 'sub', h.idx, 'append', tag])
        t2 = w.T
        done = False
        while w.T - t2 < B:
            round_()
            if all(orc.cbs.get(t) for t in tags) and converged():
                done = True
                break
        bad = [t for t in tags if not orc.cbs.get(t) or orc.cbs[t][0][1] != 0]
        if not done or bad:
            orc.flag('no_progress', 'commands submitted on every node after convergence: %d of %d not acknowledged with SUCCESS within %.1f s (%r)' % (
                len(bad), len(tags), B, [(t, orc.cbs.get(t)) for t in bad][:4]), dict(wedge=wedge(w)))
            return
        # identical state everywhere
        sts = set()
        for h in w.hosts:
            if h.node is not None and h.idx not in out:
                sts.add(repr((h.node.raftLastApplied, orc.app.model.observe(h.node))))
        if len(sts) != 1:
            orc.flag('replicas_differ', 'after the quiet period replicas hold %d different (applied index, state) pairs' % len(sts), dict(wedge=wedge(w)))

    def nontrivial(self, res):
        f = res['faults']
        kinds = len([k for k in f if f[k] > 0 and k not in ('heal',)])
        return kinds >= 2 and res['probes'].get('quiet_phase_reached', 0) > 0


SPEC = C05Spec()
run = make_run(SPEC)
