"""Seeded scheduler: draws the swarm configuration and generates the event list.

Everything random about a run is drawn from one random.Random(seed) here (node
internals use PRNGs derived from the same seed in World.start).  The generated
events are explicit; replay needs no PRNG.
"""
import random

from .boot import priv, M, HarnessError

LEADER = 2


class RunAbort(Exception):
    """The run is stopped for a resource reason: neither a pass nor a violation."""


def wchoice(rng, items):
    """items: list of (weight, value)"""
    tot = 0.0
    for w, _ in items:
        tot += w
    x = rng.random() * tot
    for w, v in items:
        x -= w
        if x <= 0:
            return v
    return items[-1][1]


DEFAULT_SCHED = dict(
    steps=5000,
    dts=[0.0, 0.0, 0.0005, 0.002, 0.005, 0.02],
    w_tick=6.0, w_dlv=5.0, w_conn=2.0, w_sub=0.35,
    w_rst=0.0, w_hold=0.0, w_unhold=0.3, w_part=0.0, w_heal=0.05,
    w_kill=0.0, w_killop=0.0, w_start=0.2, w_compact=0.0, w_child=1.0, w_stall=0.0, w_jump=0.0,
    w_sub_ro=0.0,
    dlv_sizes=[0, 0, 0, 0, 1, 5, 17, 64],
    max_subs=150,
    pads=[0, 0, 0, 10, 100],
    connect_timeout=8.0,
    backlog_cap=1 << 17,
    max_down=None,           # at most this many voters down at once (None: all may be down)
    quiet_rounds=0,
    orphan_children=True,
)


def default_conf():
    return dict(appendEntriesUseBatch=True, appendEntriesBatchSizeBytes=1 << 16,
                logCompactionMinEntries=1 << 30, logCompactionMinTime=1 << 30, logCompactionBatchSize=1 << 16,
                raftMinTimeout=0.4, raftMaxTimeout=1.4, appendEntriesPeriod=0.1,
                connectionTimeout=3.5, connectionRetryTime=5.0, leaderFallbackTimeout=30.0,
                commandsQueueSize=100000, commandsWaitLeader=True, useFork=False)


def draw_common(rng, nv=None, compaction=None, small_batches=None):
    """A generic swarm configuration; property specs adjust it."""
    conf = default_conf()
    n = nv if nv is not None else rng.choice([2, 3, 3, 3, 4, 5])
    conf['appendEntriesUseBatch'] = rng.random() < 0.6
    if small_batches is None:
        small_batches = rng.random() < 0.4
    if small_batches:
        conf['appendEntriesBatchSizeBytes'] = rng.choice([1, 30, 64, 64, 200, 200, 1024, 1024] if rng.random() < 0.1 else [30, 64, 64, 200, 200, 1024])
    if compaction is None:
        compaction = rng.random() < 0.6
    if compaction:
        conf['logCompactionMinEntries'] = rng.choice([2, 3, 5, 10, 30])
        conf['logCompactionMinTime'] = rng.choice([0.5, 2, 10, 1 << 30])
        conf['logCompactionBatchSize'] = rng.choice([1, 7, 64, 1024, 1 << 16])
    tmin = rng.choice([0.35, 0.4, 0.4, 1.0])
    conf['raftMinTimeout'] = tmin
    conf['raftMaxTimeout'] = tmin + rng.choice([0.2, 1.0, 1.0, 2.0])
    conf['connectionTimeout'] = max(conf['raftMaxTimeout'], rng.choice([3.5, 3.5, 1.5, 6.0]))
    conf['connectionRetryTime'] = rng.choice([0, 0.5, 1.0, 5.0])
    conf['commandsWaitLeader'] = rng.random() < 0.7
    cfg = dict(n_voters=n, n_ro=0, conf=conf,
               # Linux clamps SO_SNDBUF/SO_RCVBUF to a few KiB at least; smaller capacities are used only
               # where TcpConnection is driven directly (C13) or on benign schedules (C11)
               cap=rng.choice([1 << 16, 1 << 16, 1 << 12, 1 << 13, 1 << 20]),
               cpu_cost=rng.choice([1e-4, 2e-4, 2e-4, 5e-4]),
               poll_shuffle=rng.random() < 0.3,
               short_write=rng.random() < 0.2,
               clock_rates=[rng.choice([1.0, 1.0, 0.95, 1.05, 0.9, 1.1]) for _ in range(8)] if rng.random() < 0.5 else None,
               # the repository's own PollPoller / SelectPoller over a simulated `select` module, or the harness'
               # forgiving stand-in; descriptor numbers re-used like a kernel does (lowest free) or never
               poller=rng.choice(['sim', 'poll', 'poll', 'select']),
               fd_reuse=rng.random() < 0.5,
               # a dial towards a destination that is cut off right now may fail at once (ENETUNREACH) instead of pending
               sync_connect_fail=rng.choice([0.0, 0.0, 0.3, 0.8]),
               sched=dict(DEFAULT_SCHED))
    if conf['logCompactionBatchSize'] < 64 or conf['appendEntriesBatchSizeBytes'] < 30:
        # hundreds of tiny chunks per snapshot / entry: on a machine that slow a transfer would take
        # longer than connectionTimeout, during which the receiver sends nothing and the sender drops
        # the connection (noted in DESIGN.md as an observation); keep the simulated machine fast enough
        cfg['cpu_cost'] = min(cfg['cpu_cost'], 1e-4)
    if conf['appendEntriesBatchSizeBytes'] < 1024:
        # every entry of some size is chunked into several messages, a lagging follower gets the whole tail again
        # after every reset reply: on the slowest simulated machines (5e-4 s per clock read) a follower needs more
        # than a heartbeat period of CPU time for one heartbeat's traffic and never catches up - overload, not a
        # subject of the liveness properties (premise "timely ticks")
        cfg['cpu_cost'] = min(cfg['cpu_cost'], 1e-4)
    if conf['appendEntriesBatchSizeBytes'] < 30:
        # one-byte chunks: every entry becomes ~100 messages of ~90 bytes to every follower.  "Timely ticks"
        # and links that carry the traffic are premises of the liveness properties, not their subject
        # (this family decides nothing about performance): a fast machine and roomy sockets
        cfg['cpu_cost'] = 2e-5
        cfg['cap'] = max(cfg['cap'], 1 << 16)
    if cfg['cap'] <= 600:
        # tiny socket buffers only together with prompt delivery (see DESIGN 2.7)
        cfg['sched']['w_dlv'] = 12.0
        cfg['sched']['dlv_sizes'] = [0, 0, 0, 0, 0, 1, 64]
    return cfg


def finalize_cfg(cfg):
    """Cross-constraints between drawn parameters, applied after a spec's draw() (specs change batch sizes after
    draw_common): the simulated machine and links must be able to carry the traffic the configuration produces -
    premises ("timely ticks", connectivity) of the liveness properties, not their subject."""
    # files opened for writing buffer in user space as CPython does (replay files recorded earlier lack the flag)
    cfg.setdefault('fs_ubuf', True)
    conf = cfg.get('conf') or {}
    sc = cfg.get('sched') or {}
    if sc.get('guide'):
        # the guided late-acknowledgement schedule owns the partitions of its run and needs five voters that stay
        # up; a spec that changed the cluster or enabled kills after the draw runs unguided
        if cfg.get('n_voters') != 5 or cfg.get('n_spare') or sc.get('w_kill') or sc.get('w_killop') or cfg.get('deposed_scenario'):
            sc['guide'] = None
        else:
            for k in ('w_part', 'w_heal', 'w_hold', 'w_rst', 'w_stall'):
                sc[k] = 0.0
            conf['connectionTimeout'] = max(conf.get('connectionTimeout', 3.5), 3.5)
            # five voters ticked at random need some spread of the election time-outs to get a first leader at all
            conf['raftMaxTimeout'] = max(conf['raftMaxTimeout'], conf['raftMinTimeout'] + 0.5)
            # ... and a network whose latency (20 pipes served one delivery at a time) stays below them
            sc['w_dlv'] = max(sc.get('w_dlv', 5.0), 12.0)
            sc['dts'] = [d for d in sc.get('dts', [0.0]) if d <= 0.02]
    B = conf.get('appendEntriesBatchSizeBytes', 1 << 16)
    if 'cpu_cost' in cfg:
        if B < 1024 or conf.get('logCompactionBatchSize', 1 << 16) < 64:
            cfg['cpu_cost'] = min(cfg['cpu_cost'], 1e-4)
        if B < 1024:
            # chunked entries cost ~100 bytes of framing per chunk and a lagging follower is sent the whole tail again
            # after every reset reply; TcpConnection buffers without limit, so behind a 4 KiB socket the leader's
            # write buffer grows by the megabyte and the follower only ever sees stale rounds (overload, see 8.3)
            cfg['cap'] = max(cfg.get('cap', 1 << 16), 1 << 16)
        if B < 30:
            cfg['cpu_cost'] = min(cfg['cpu_cost'], 2e-5)
            cfg['cap'] = max(cfg.get('cap', 1 << 16), 1 << 16)
    return cfg


def apply_churn(rng, cfg):
    """Turn a drawn configuration into a leader-churn run (see Scheduler._churn_event)."""
    conf = cfg['conf']
    s = cfg['sched']
    s['churn'] = dict(dwell=rng.choice([[0.3, 0.6, 1.0, 1.5], [0.6, 1.0, 1.0, 2.5], [1.0, 1.5, 3.0]]),
                      p_inflight=rng.choice([0.0, 0.003, 0.01, 0.03]),
                      p_newleader=rng.choice([0.0, 0.3, 0.6, 0.9]), p_commit=rng.choice([0.0, 0.1, 0.5, 1.0]),
                      burst=rng.choice([[0, 1, 2], [1, 2, 3], [0, 0, 1]]),
                      modes=[(4, 'majority'), (2, 'apart'), (2, 'isolate_leader'), (1, 'heal'), (2, 'random')])
    # entries travel in messages of their own, fragments are small: a cut lands between them
    conf['appendEntriesBatchSizeBytes'] = rng.choice([30, 64, 64, 200, 1 << 16])
    s['dlv_sizes'] = rng.choice([[0, 0, 0, 0, 1, 5, 17, 64], [0, 17, 64, 64, 200], [17, 64, 64], [64, 200], [30, 100, 100, 300]])
    s['w_part'] = 0.0
    s['w_heal'] = 0.0
    s['w_hold'] = rng.choice([0.0, 0.02])
    return cfg


def apply_guide_stale_ack(rng, cfg):
    """Guided schedule "late acknowledgement" (Scheduler._guide_stale_ack) on top of a churn configuration: five
    voters, election time-outs well below the connection time-out, so that one connection can stay silent across
    two elections without being dropped by its reader."""
    conf = cfg['conf']
    cfg['n_voters'] = 5
    tmin = rng.choice([0.35, 0.4])
    conf['raftMinTimeout'] = tmin
    conf['raftMaxTimeout'] = tmin + rng.choice([0.05, 0.2, 0.5])
    conf['connectionTimeout'] = rng.choice([3.5, 6.0, 10.0])
    conf['connectionRetryTime'] = rng.choice([0, 0.5, 1.0])
    conf['leaderFallbackTimeout'] = 30.0
    cfg['sched']['guide'] = dict(kind='stale_ack', burst=rng.choice([2, 3, 5]), t_start=rng.choice([1.0, 2.0, 4.0]),
                                 p4=rng.choice(['one_follower', 'one_follower', 'heal']),
                                 variant=rng.choice(['in_flight', 'in_flight', 'delivered']))
    return cfg


class Scheduler(object):
    def _guide_stale_ack(self, dt):
        """Guided schedule: an acknowledgement that outlives the leadership it was sent in.

          p1  leader L and one follower B are cut off together; the other three elect C (newer term)
          p1b L gets a burst of commands; B stores them; the instant B's acknowledgement is in flight ...
          p2  ... B is cut off alone (its acknowledgement stays in the network, the connection stays up), L meets C,
              steps down and drops its uncommitted tail
          p3  C is cut off, the other two are slow, L is elected again and appends its no-op
          p4  B comes back together with one more follower: the old acknowledgement arrives in the new leadership

        Every step waits for the state it needs (with a time-out, after which the guide gives up and ordinary churn
        takes over); ticks, deliveries and submissions in between are drawn as in any other run."""
        w, rng, g = self.w, self.rng, self.guide
        cf = self.s['guide']
        ph = self.guide_phase
        hosts = w.hosts
        nv = [h.idx for h in hosts if not h.readonly and h.member]

        def st(i):
            n = hosts[i].node
            return None if n is None else priv(n, 'SyncObj', 'raftState')

        def last(i):
            return priv(hosts[i].node, 'SyncObj', 'raftLog')[-1][1]

        def give_up(why):
            self.guide_phase = 'done'
            w.probe('guide_gave_up_' + why)
            for i in g.get('slow', []):
                self.stalled.pop(i, None)
            self.held = []
            return [dt, 'heal']

        if any(hosts[i].node is None for i in nv) or len(nv) < 5:
            return give_up('node_down')
        if ph == 'init':
            if w.T < cf['t_start']:
                return None
            L = self.leader_idx()
            if L is None or hosts[L].node.raftCommitIndex < 2 or w.groups is not None:
                if w.T > cf['t_start'] + 20:
                    return give_up('no_leader')
                return None
            others = [i for i in nv if i != L]
            conn = [i for i in others if len(priv(hosts[i].node, 'SyncObj', 'connectedNodes')) >= 4]
            if len(conn) < 4:
                return None
            B = rng.choice(others)
            g.update(L=L, B=B, rest=[i for i in others if i != B], term=hosts[L].node.raftCurrentTerm, t0=w.T)
            grp = [1] * len(hosts)
            grp[L] = grp[B] = 0
            self.guide_phase = 'p1'
            w.probe('guide_p1')
            return [dt, 'part', grp]
        L, B, rest = g['L'], g['B'], g['rest']
        if ph == 'p1':
            if st(L) != LEADER or hosts[L].node.raftCurrentTerm != g['term']:
                return give_up('p1_leader_lost')
            C = [i for i in rest if st(i) == LEADER and hosts[i].node.raftCurrentTerm > g['term']]
            if not C:
                if w.T - g['t0'] > 8 * self.cfg['conf']['raftMaxTimeout']:
                    return give_up('p1_no_election')
                return None
            g['C'] = C[0]
            g['x0'] = last(L)
            for _ in range(cf['burst']):
                tag = self.next_tag
                self.next_tag += 1
                self.nsubs += 1
                self.queue.append([0.0, 'sub', L, 'append', tag])
            self.guide_phase = 'p1b'
            g['t1'] = w.T
            return None
        if ph == 'p1b':
            if st(L) != LEADER:
                return give_up('p1b_leader_lost')
            if last(L) >= g['x0'] + cf['burst'] and last(B) == last(L):
                # B holds the burst; is its acknowledgement on the wire right now?  (variant 'delivered': has it
                # arrived?  Then the state to outlive the leadership is the leader's own record of it.)
                if cf.get('variant') == 'delivered':
                    mi = priv(hosts[L].node, 'SyncObj', 'raftMatchIndex')
                    bnode = [nd for nd in mi if str(nd.id) == hosts[B].addr]
                    if bnode and mi[bnode[0]] >= last(B):
                        g['X'] = last(B)
                        grp = [0] * len(hosts)
                        grp[B] = 2
                        self.guide_phase = 'p2'
                        g['t2'] = w.T
                        w.probe('guide_p2_ack_delivered')
                        return [0.0, 'part', grp]
                    return None
                for pid, p in w.net.pipes.items():
                    if p.writer.host == B and p.reader.host == L and p.inflight and not p.dead:
                        g['X'] = last(B)
                        grp = [0] * len(hosts)
                        grp[B] = 2
                        self.guide_phase = 'p2'
                        g['t2'] = w.T
                        w.probe('guide_p2_ack_in_flight')
                        return [0.0, 'part', grp]
            if w.T - g['t1'] > 3.0:
                return give_up('p1b_no_ack_in_flight')
            return None
        C = g['C']
        if ph == 'p2':
            if st(L) == 0 and hosts[L].node.raftCurrentTerm > g['term'] and last(L) < g['X']:
                # L follows the newer leader and has dropped its tail: cut C off, keep the other two slow
                grp = [0] * len(hosts)
                grp[B] = 2
                grp[C] = 1
                g['slow'] = [i for i in rest if i != C]
                for i in g['slow']:
                    self.stalled[i] = w.T + 30.0
                self.guide_phase = 'p3'
                g['t3'] = w.T
                w.probe('guide_p3_tail_dropped')
                return [dt, 'part', grp]
            if w.T - g['t2'] > 2.0:
                return give_up('p2_not_deposed')
            return None
        if ph == 'p3':
            s_l = st(L)
            if s_l in (1, LEADER) or w.T - g['t3'] > 1.2 * self.cfg['conf']['raftMaxTimeout'] / 0.9 + 0.5:
                for i in g.get('slow', []):
                    self.stalled.pop(i, None)
            if s_l == LEADER:
                n = last(L)
                w.probe('guide_p4_reelected')
                if g['X'] >= n:
                    w.probe('guide_p4_stale_ack_covers_noop')
                self.guide_phase = 'done'
                grp = [0] * len(hosts)
                grp[C] = 1
                if cf['p4'] == 'one_follower':
                    grp[rng.choice(g['slow'])] = 3
                return [0.0, 'part', grp]
            if any(st(i) == LEADER and i != C for i in rest) or w.T - g['t3'] > 6.0:
                return give_up('p3_other_leader')
            return None
        return None

    def __init__(self, world, rng, cfg):
        self.w = world
        self.rng = rng
        self.s = cfg['sched']
        self.cfg = cfg
        self.next_tag = 1
        self.nsubs = 0
        self.step = 0
        self.drain = 0
        self.stalled = {}          # host -> until T
        self.held = []
        self.dark = {}             # cid -> time since which the path is dark (for keep-alive)
        self.queue = []            # events decided already (bursts)
        self.churn_next = 0.0
        self.churn_seen = {}
        self.guide_phase = 'init'
        self.guide = {}
        self.fc_seen = {}

    # hooks for property-specific schedulers --------------------------------------
    def extra_choices(self, items):
        pass

    def make_submit(self):
        w, rng = self.w, self.rng
        ups = [h.idx for h in w.hosts if h.node is not None and (not h.readonly or self.s['w_sub_ro'] > 0)]
        if not ups:
            return None
        i = rng.choice(ups)
        tag = self.next_tag
        self.next_tag += 1
        self.nsubs += 1
        pad = rng.choice(self.s['pads'])
        ev = ['sub', i, 'append', tag]
        if pad:
            ev.append(pad)
        return ev

    # -----------------------------------------------------------------------------
    def leader_idx(self):
        for h in self.w.hosts:
            n = h.node
            if n is not None and priv(n, 'SyncObj', 'raftState') == LEADER:
                return h.idx
        return None

    def next_event(self):
        w, rng, s = self.w, self.rng, self.s
        self.step += 1
        dt = rng.choice(s['dts'])
        net = w.net
        if self.step % 32 == 0 and self.drain == 0:
            bcap = min(s['backlog_cap'], 150 * net.cap)
            if net.backlog() > bcap or self._wbuf() > bcap:
                self.drain = 200
                w.probe('drain_mode')
                if self._wbuf() > s.get('abort_backlog', 1 << 19):
                    raise RunAbort('backlog')
                if w.groups is not None or self.held or any(p.held for p in net.pipes.values()):
                    # the backlog sits behind a partition or a held pipe: the fault ends here
                    # (TcpConnection buffers without limit; see DESIGN 2.7)
                    self.held = []
                    return [dt, 'heal']
        # TCP keep-alive: a connection whose path has been dark for longer than the socket's keep-alive
        # budget is reset by the kernel of every endpoint that has SO_KEEPALIVE set
        if self.step % 16 == 0:
            dark = self.dark
            for cid, c in net.conns.items():
                isdark = w.blocked(c.chost, c.shost) or (c.p_cs.held and c.p_sc.held)
                if isdark:
                    dark.setdefault(cid, w.T)
                else:
                    dark.pop(cid, None)
            for cid in list(dark):
                if cid not in net.conns:
                    del dark[cid]
            due = net.keepalive_due(dark, w.T)
            if due:
                w.probe('keepalive_reset')
                return [0.0, 'rst', due[0][0], due[0][1]]
        # a fork child is a running process: it is not stalled for longer than child_max_delay
        for h in w.hosts:
            ch = h.forkemu.children
            if ch:
                for pid in ch:
                    c = ch[pid]
                    if c['ops'] and w.T - c.get('t_start', w.T) > s.get('child_max_delay', 0.2):
                        return [0.0, 'child', h.idx]
        if self.queue:
            return self.queue.pop(0)
        prc = s.get('p_rst_after_follower_commit', 0)
        if prc and self.drain == 0:
            # adversary: a follower has just moved its commit index on; the connection to its leader is reset now, so that
            # the leader starts again from an older next index and re-sends batches that end below that commit index
            seen = self.fc_seen
            for h in w.hosts:
                nd = h.node
                if nd is None or h.readonly:
                    seen.pop(h.idx, None)
                    continue
                c = nd.raftCommitIndex
                old = seen.get(h.idx)
                seen[h.idx] = c
                if old is not None and c > old and priv(nd, 'SyncObj', 'raftState') == 0 and rng.random() < prc:
                    lead = self.leader_idx()
                    if lead is None or lead == h.idx:
                        continue
                    for cid, cn in net.conns.items():
                        if set((cn.chost, cn.shost)) == set((lead, h.idx)):
                            w.probe('reset_after_follower_commit')
                            return [dt, 'rst', cid, rng.randrange(2)]
        ss = getattr(w, 'snap_sent', None)
        if ss is not None and s['w_compact'] > 0 and self.drain == 0:
            # adversary: a leader has just handed (a chunk of) a snapshot for node i to its transport; with some
            # probability that node starts a compaction of its own (forced, as an operator or a timer would) and ticks
            # before the chunk arrives: the installation of the received snapshot falls between the start and the
            # completion of its own dump
            w.snap_sent = None
            i = ss[0]
            if ss[1] >= w.evno - 1 and w.hosts[i].node is not None and self.stalled.get(i, -1) <= w.T and rng.random() < 0.25:
                w.probe('compaction_forced_on_snapshot_receiver')
                self.queue.append([0.0, 'tick', i])
                return [dt, 'compact', i]
        live = net.live_pipes()
        if s.get('guide') and self.drain == 0 and self.guide_phase != 'done':
            ev = self._guide_stale_ack(dt)
            if ev is not None:
                return ev
        if s.get('churn') and self.drain == 0 and (not s.get('guide') or self.guide_phase == 'done'):
            ev = self._churn_event(dt, live)
            if ev is not None:
                return ev
        if self.drain > 0:
            self.drain -= 1
            if live and rng.random() < 0.7:
                return [dt, 'dlv', rng.choice(live), 0]
            ups = [h.idx for h in w.hosts if h.node is not None]
            if ups:
                return [dt, 'tick', rng.choice(ups)]
        items = []
        ups = [h.idx for h in w.hosts if h.node is not None and self.stalled.get(h.idx, -1) <= w.T]
        downs = [h.idx for h in w.hosts if h.node is None and (h.member or h.readonly) and not h.extra.get('retired')]
        if ups:
            items.append((s['w_tick'], 'tick'))
        if live:
            items.append((s['w_dlv'], 'dlv'))
        if net.pending:
            items.append((s['w_conn'], 'conn'))
        if ups and self.nsubs < s['max_subs']:
            items.append((s['w_sub'], 'sub'))
        if net.conns and s['w_rst'] > 0:
            items.append((s['w_rst'], 'rst'))
        if live and s['w_hold'] > 0:
            items.append((s['w_hold'], 'hold'))
        if self.held:
            items.append((s['w_unhold'], 'unhold'))
        if s['w_part'] > 0 and w.groups is None and len(w.hosts) > 1:
            items.append((s['w_part'], 'part'))
        if w.groups is not None:
            items.append((s['w_heal'], 'heal'))
        if ups and s['w_kill'] > 0 and self._may_kill():
            items.append((s['w_kill'], 'kill'))
        if ups and s['w_killop'] > 0 and self._may_kill():
            items.append((s['w_killop'], 'killop'))
        if downs:
            items.append((s['w_start'], 'start'))
        if ups and s['w_compact'] > 0:
            items.append((s['w_compact'], 'compact'))
        if ups and s['w_stall'] > 0:
            items.append((s['w_stall'], 'stall'))
        if ups and s['w_jump'] > 0:
            items.append((s['w_jump'], 'jump'))
        kids = [h.idx for h in w.hosts if h.forkemu.children and h.forkemu.pending_children()]
        if kids:
            items.append((s['w_child'], 'child'))
            if s.get('w_childkill', 0) > 0:
                items.append((s['w_childkill'], 'childkill'))
        self.extra_choices(items)
        if not items:
            return [max(dt, 0.01), 'nop']
        k = wchoice(rng, items)
        if k == 'tick':
            return [dt, 'tick', rng.choice(ups)]
        if k == 'dlv':
            return [dt, 'dlv', rng.choice(live), rng.choice(s['dlv_sizes'])]
        if k == 'conn':
            cid = rng.choice(list(net.pending))
            c = net.pending[cid]
            if c.shost is None:
                return [dt, 'conn', cid, 'refuse']
            if w.blocked(c.chost, c.shost):
                if w.T - c.t_start > s['connect_timeout']:
                    return [dt, 'conn', cid, 'timeout']
                return [dt, 'nop']
            if (c.shost, c.port) in net.listeners:
                return [dt, 'conn', cid, 'ok']
            return [dt, 'conn', cid, 'refuse']
        if k == 'sub':
            ev = self.make_submit()
            if ev is None:
                return [dt, 'nop']
            return [dt] + ev
        if k == 'rst':
            cid = rng.choice(list(net.conns))
            return [dt, 'rst', cid, rng.randrange(2)]
        if k == 'hold':
            pid = rng.choice(live)
            self.held.append(pid)
            return [dt, 'hold', pid, 1]
        if k == 'unhold':
            pid = self.held.pop(rng.randrange(len(self.held)))
            return [dt, 'hold', pid, 0]
        if k == 'part':
            return [dt, 'part', self._draw_partition()]
        if k == 'heal':
            self.held = []
            return [dt, 'heal']
        if k == 'kill':
            return [dt, 'kill', rng.choice(ups), 1 if s['orphan_children'] else rng.randrange(2)]
        if k == 'killop':
            return [dt, 'killop', rng.choice(ups), rng.choice([1, 1, 2, 3, 5, 8, 13]),
                    rng.choice(['before', 'after', 'torn']), rng.choice([0.1, 0.5, 0.9])]
        if k == 'start':
            if s.get('p_kill_while_starting', 0) and rng.random() < s['p_kill_while_starting']:
                return [dt, 'start', rng.choice(downs), rng.choice([1, 1, 2, 3, 4, 6, 9]), rng.choice(['before', 'after', 'torn']), rng.choice([0.1, 0.5, 0.9])]
            return [dt, 'start', rng.choice(downs)]
        if k == 'compact':
            # half of the forced compactions are aimed at a node that is in the middle of receiving a snapshot: its own
            # compaction and the installation of the leader's snapshot meet within a tick or two
            recv = []
            for i in ups:
                ser = priv(w.hosts[i].node, 'SyncObj', 'serializer')
                if priv(ser, 'Serializer', 'incomingTransmissionFile') is not None:
                    recv.append(i)
            if recv and rng.random() < 0.5:
                w.probe('compaction_aimed_at_snapshot_receiver')
                return [dt, 'compact', rng.choice(recv)]
            return [dt, 'compact', rng.choice(ups)]
        if k == 'stall':
            i = rng.choice(ups)
            self.stalled[i] = w.T + rng.choice([0.2, 1.0, 3.0])
            w.fault('stall')
            return [dt, 'nop']
        if k == 'jump':
            return [dt, 'jump', rng.choice(ups), rng.choice([0.5, 2.0, 10.0])]
        if k == 'child':
            return [dt, 'child', rng.choice(kids)]
        if k == 'childkill':
            return [dt, 'childkill', rng.choice(kids)]
        return self.build_extra(k, dt)

    def build_extra(self, k, dt):
        raise HarnessError('scheduler: unknown choice %r' % (k,))

    def _may_kill(self):
        md = self.s['max_down']
        if md is None:
            return True
        down = len([h for h in self.w.hosts if h.node is None and h.member and not h.readonly])
        return down < md

    def _wbuf(self):
        m = 0
        for h in self.w.hosts:
            n = h.node
            if n is None:
                continue
            t = priv(n, 'SyncObj', 'transport')
            for c in t._connections.values():
                b = c.getSendBufferSize()
                if b > m:
                    m = b
        return m

    def _churn_event(self, dt, live):
        """Leader-churn schedule family: the cluster is re-partitioned again and again - when a dwell time of the
        order of an election time-out is over or, with a small probability per step, while bytes are in flight -
        into a bare majority plus isolated nodes, everybody apart, the leader alone, a random split, or healed;
        right after the cut every node that believes it leads gets a burst of commands (so leaders of different
        terms pile up uncommitted tails that later meet in changing majorities)."""
        w, rng, ch = self.w, self.rng, self.s['churn']
        # adversarial instants: a node has just become leader / a leader has just decided something
        focus = None
        seen = self.churn_seen
        for h in w.hosts:
            nd = h.node
            if nd is None:
                seen.pop(h.idx, None)
                continue
            cur = (priv(nd, 'SyncObj', 'raftState') == LEADER, nd.raftCommitIndex)
            old = seen.get(h.idx)
            seen[h.idx] = cur
            if old is None or not cur[0]:
                continue
            if not old[0] and rng.random() < ch['p_newleader']:
                focus = h.idx
                w.probe('churn_at_new_leader')
            elif old[0] and cur[1] > old[1] and rng.random() < ch['p_commit']:
                focus = h.idx
                w.probe('churn_at_leader_commit')
        if focus is None and not (w.T >= self.churn_next or (live and rng.random() < ch['p_inflight'])):
            return None
        self.churn_next = w.T + rng.choice(ch['dwell']) * self.cfg['conf']['raftMaxTimeout']
        voters = [h.idx for h in w.hosts if not h.readonly]
        n = len(w.hosts)
        mode = wchoice(rng, ch['modes'])
        g = [0] * n
        lead = self.leader_idx()
        if focus is not None and rng.random() < 0.7:
            mode, lead = 'isolate_leader', focus
        if mode == 'majority':
            # a bare majority together (group 0), the others apart or together
            rng.shuffle(voters)
            rest = voters[len(voters) // 2 + 1:]
            together = rng.random() < 0.3
            for k, i in enumerate(rest):
                g[i] = 1 if together else 1 + k
        elif mode == 'apart':
            for k, i in enumerate(voters):
                g[i] = k
        elif mode == 'isolate_leader' and lead is not None:
            g[lead] = 1
        elif mode == 'random':
            k = rng.choice([2, 2, 3])
            for i in voters:
                g[i] = rng.randrange(k)
        w.probe('churn_' + mode)
        leaders = [h.idx for h in w.hosts if h.node is not None and priv(h.node, 'SyncObj', 'raftState') == LEADER]
        for i in leaders:
            for _ in range(rng.choice(ch['burst'])):
                if self.nsubs >= self.s['max_subs']:
                    break
                tag = self.next_tag
                self.next_tag += 1
                self.nsubs += 1
                self.queue.append([0.0, 'sub', i, 'append', tag])
        if mode == 'heal' or max(g) == 0:
            self.held = []
            return [dt, 'heal']
        return [dt, 'part', g]

    def _draw_partition(self):
        w, rng = self.w, self.rng
        n = len(w.hosts)
        mode = rng.choice(['random', 'isolate_leader', 'isolate_one', 'leader_minority'])
        g = [0] * n
        lead = self.leader_idx()
        if mode == 'random' or lead is None and mode != 'isolate_one':
            for i in range(n):
                g[i] = rng.randrange(2)
        elif mode == 'isolate_one':
            g[rng.randrange(n)] = 1
        elif mode == 'isolate_leader':
            g[lead] = 1
        else:
            g[lead] = 1
            others = [i for i in range(n) if i != lead]
            rng.shuffle(others)
            k = max(0, (len([h for h in w.hosts if not h.readonly]) - 1) // 2 - 1)
            for i in others[:k + (1 if rng.random() < 0.5 else 0)]:
                g[i] = 1
        return g

    # -- quiet period: faults stop, timely ticks, prompt delivery --------------------
    def quiet_events(self, rounds, period=0.02):
        """Generator of events for the quiet period. Yields events; the caller
        applies each and may stop early."""
        w = self.w
        yield [0.0, 'heal']
        for i, h in enumerate(w.hosts):
            if h.node is None and (h.member or h.readonly) and not h.extra.get('retired'):
                yield [0.0, 'start', h.idx]
        for r in range(rounds):
            first = True
            for h in w.hosts:
                if h.node is None:
                    continue
                yield [period if first else 0.0, 'tick', h.idx]
                first = False
            for h in w.hosts:
                while h.forkemu.pending_children():
                    yield [0.0, 'child', h.idx]
            for cid in list(w.net.pending):
                c = w.net.pending.get(cid)
                if c is None:
                    continue
                if c.shost is not None and (c.shost, c.port) in w.net.listeners:
                    yield [0.0, 'conn', cid, 'ok']
                else:
                    yield [0.0, 'conn', cid, 'refuse']
            for _ in range(3):
                live = w.net.live_pipes()
                if not live:
                    break
                for pid in live:
                    yield [0.0, 'dlv', pid, 0]
