"""SimFS: per-host in-memory file system under the repository's real journal and
serializer code, with primitive-op counting, process-kill images and an emulated
fork child.

Crash model = process kill: every primitive op that completed is durable, in
program order; the interrupted op is absent, complete, or (byte-range writes) a
prefix.
"""
import errno
import os as _realos
import gzip as _gzip
import io
import types

from .boot import CTX


class ChildExit(BaseException):
    """Raised by the os._exit shim inside the emulated fork child."""

    def __init__(self, code):
        BaseException.__init__(self, code)
        self.code = code


def _repo_stack():
    """Names of the repository functions on the Python stack, innermost first."""
    import sys
    out = []
    f = sys._getframe(2)
    while f is not None and len(out) < 12:
        fn = f.f_code.co_filename
        if '/pysyncobj/' in fn:
            out.append('%s:%s' % (fn.rsplit('/', 1)[-1][:-3], f.f_code.co_name))
        f = f.f_back
    return out


class FS(object):
    def __init__(self, host):
        self.host = host
        self.files = {}          # path -> bytearray (the 'inode')
        self.ops = 0             # primitive mutation ordinal
        self.kill_at = None      # ordinal at which the process dies
        self.kill_mode = 'before'   # before | after | torn
        self.torn_frac = 0.5
        self.image = None        # durable image taken at the kill point
        self.killed_in = None    # (ordinal, kind, path, stack tag)
        self.fds = {}
        self.next_fd = 5000
        self.capture = None      # list collecting the fork child's ops
        self.oplog = None        # optional list of (ordinal, kind, path) for tracing
        self.cost = 5e-5
        self.on_mutate = None    # callback(fs, kind, path) after each applied op
        self.in_child = False    # the op being applied belongs to an emulated fork child
        # user-space write buffering of open(path, 'wb'/'ab') as in CPython (BufferedWriter): what was written but not
        # flushed/closed is not in the file when the process dies.  Off for replay files recorded before it was modelled.
        self.ubuf = False

    def snapshot(self):
        return dict((k, bytes(v)) for k, v in self.files.items())

    def restore(self, image):
        # in place: an orphaned fork child keeps writing through its open handle (same 'inode')
        old = self.files
        new = {}
        for k, v in image.items():
            b = old.get(k)
            if b is None:
                b = bytearray(v)
            else:
                b[:] = v
            new[k] = b
        self.files = new
        self.fds = {}
        self.kill_at = None
        self.image = None
        self.capture = None

    def mutate(self, kind, path, fn, torn=None):
        """Run one primitive storage op `fn`. `torn(frac)` applies a prefix of it."""
        w = CTX.world
        if w is not None:
            w.T += self.cost
        if self.capture is not None:
            # emulated fork child: record, do not touch the parent's disk
            self.capture.append((kind, path, fn))
            return
        if self.in_child:
            fn()
            return
        self.ops += 1
        if self.oplog is not None:
            self.oplog.append((self.ops, kind, path))
        if self.kill_at is not None and self.ops == self.kill_at and self.image is None:
            mode = self.kill_mode
            if mode == 'torn' and torn is None:
                mode = 'before'
            if mode == 'before':
                self.image = self.snapshot()
                fn()
            elif mode == 'after':
                fn()
                self.image = self.snapshot()
            else:
                torn(self.torn_frac)
                self.image = self.snapshot()
                fn()
            self.killed_in = (self.ops, kind, path, mode, _repo_stack())
            if w is not None:
                w.on_fs_kill(self.host)
            return
        fn()
        if self.on_mutate is not None:
            self.on_mutate(self, kind, path)


class SimFile(io.RawIOBase):
    def __init__(self, fs, path, mode):
        io.RawIOBase.__init__(self)
        self.fs, self.path, self.mode = fs, path, mode
        self._w = any(c in mode for c in 'wa+')
        self._r = 'r' in mode or '+' in mode
        if 'w' in mode:
            b = bytearray()

            def fn():
                # in capture mode (fork child) this runs later, as a child step;
                # the child's deferred writes then land in the same buffer
                fs.files[path] = b
            fs.mutate('truncate', path, fn)
            self.buf = b
        elif path not in fs.files:
            if 'a' in mode:
                def fn():
                    fs.files[path] = bytearray()
                fs.mutate('create', path, fn)
                self.buf = fs.files.get(path, bytearray())
            else:
                raise FileNotFoundError(errno.ENOENT, 'No such file or directory', path)
        else:
            self.buf = fs.files[path]
        self.pos = len(self.buf) if 'a' in mode else 0
        self._ub = bytearray() if (fs.ubuf and self._w and '+' not in mode) else None
        self._ub_pos = self.pos
        self._fd = fs.next_fd
        fs.next_fd += 1
        fs.fds[self._fd] = self

    def fileno(self):
        return self._fd

    def readable(self):
        return True

    def writable(self):
        return True

    def seekable(self):
        return True

    def tell(self):
        return self.pos

    def seek(self, off, whence=0):
        self.flush()
        if whence == 0:
            self.pos = off
        elif whence == 1:
            self.pos += off
        else:
            self.pos = len(self.buf) + off
        return self.pos

    def read(self, n=-1):
        if n is None or n < 0:
            n = max(0, len(self.buf) - self.pos)
        out = bytes(self.buf[self.pos:self.pos + n])
        self.pos += len(out)
        return out

    def readall(self):
        return self.read(-1)

    def readinto(self, b):
        d = self.read(len(b))
        b[:len(d)] = d
        return len(d)

    UBUF_SIZE = 8192

    def write(self, data):
        data = bytes(data)
        if not data:
            return 0
        if self._ub is not None:
            # BufferedWriter: small writes are collected, a write that does not fit flushes first,
            # a write of at least the buffer size goes straight through
            if len(self._ub) + len(data) > self.UBUF_SIZE:
                self.flush()
            if len(data) < self.UBUF_SIZE:
                if not self._ub:
                    self._ub_pos = self.pos
                self._ub += data
                self.pos += len(data)
                return len(data)
        return self._write_through(data)

    def _write_through(self, data):
        buf, pos = self.buf, self.pos

        def fn():
            if pos > len(buf):
                buf.extend(b'\0' * (pos - len(buf)))
            buf[pos:pos + len(data)] = data

        def torn(frac):
            k = max(0, min(len(data) - 1, int(len(data) * frac)))
            if k:
                if pos > len(buf):
                    buf.extend(b'\0' * (pos - len(buf)))
                buf[pos:pos + k] = data[:k]
        # stores of up to 8 bytes are treated as atomic (a word-sized store is not torn by a process kill)
        self.fs.mutate('write', self.path, fn, torn if len(data) > 8 else None)
        self.pos += len(data)
        return len(data)

    def flush(self):
        if self._ub:
            data = bytes(self._ub)
            del self._ub[:]
            end = self.pos
            self.pos = self._ub_pos
            self._write_through(data)
            self.pos = end

    def close(self):
        if not self.closed:
            self.flush()
        self.fs.fds.pop(self._fd, None)
        io.RawIOBase.close(self)


class SimMmap(object):
    """Work-alike of mmap.mmap(fileno, 0) for what journal.ResizableFile uses."""

    def __init__(self, fs, fileno, length):
        self.fs = fs
        self.f = fs.fds[fileno]
        self.buf = self.f.buf
        self.closed = False
        if len(self.buf) == 0:
            raise ValueError('cannot mmap an empty file')

    def size(self):
        return len(self.buf)

    def resize(self, n):
        buf = self.buf
        n = int(n)

        def fn():
            if n < len(buf):
                del buf[n:]
            else:
                buf.extend(b'\0' * (n - len(buf)))
        self.fs.mutate('resize', self.f.path, fn)

    def __getitem__(self, s):
        if isinstance(s, slice):
            return bytes(self.buf[s])
        return self.buf[s]

    def __setitem__(self, s, v):
        buf = self.buf
        start, stop, step = s.indices(len(buf))
        if stop < start:
            stop = start
        if stop - start != len(v):
            raise IndexError('mmap slice assignment is wrong size')
        v = bytes(v)

        def fn():
            buf[start:stop] = v

        def torn(frac):
            k = max(0, min(len(v) - 1, int(len(v) * frac)))
            if k:
                buf[start:start + k] = v[:k]
        self.fs.mutate('mmwrite', self.f.path, fn, torn if len(v) > 8 else None)

    def flush(self):
        pass

    def close(self):
        self.closed = True


def _fs():
    w = CTX.world
    return w.hosts[w.cur].fs


def sim_open(path, mode='r'):
    return SimFile(_fs(), path, mode)


def _rename(a, b):
    fs = _fs()
    if fs.capture is None and a not in fs.files:
        raise FileNotFoundError(errno.ENOENT, 'No such file or directory', a)

    def fn():
        fs.files[b] = fs.files.pop(a)
    fs.mutate('rename', b, fn)


def _remove(p):
    fs = _fs()
    if p not in fs.files:
        raise FileNotFoundError(errno.ENOENT, 'No such file or directory', p)

    def fn():
        fs.files.pop(p, None)
    fs.mutate('remove', p, fn)


def _exists(p):
    return p in _fs().files


class GzipFileShim(_gzip.GzipFile):
    """gzip.GzipFile with the header mtime pinned (otherwise snapshot bytes, and
    with them frame lengths and fragmentation, depend on the wall clock)."""

    def __init__(self, *a, **k):
        k.setdefault('mtime', 0)
        _gzip.GzipFile.__init__(self, *a, **k)


def _fork():
    w = CTX.world
    return w.hosts[w.cur].forkemu.fork()


def _waitpid(pid, flags):
    w = CTX.world
    return w.hosts[w.cur].forkemu.waitpid(pid, flags)


def _exit(code):
    raise ChildExit(code)


def _kill(pid, sig):
    w = CTX.world
    return w.hosts[w.cur].forkemu.kill(pid, sig)


class ForkEmu(object):
    """Emulated fork for Serializer.serialize: the wrapper in install_seams runs the
    real method twice (child pass with fork()==0 in FS capture mode, then parent
    pass with fork()==pid).  The child's recorded storage ops become scheduler
    events (`child` steps)."""

    def __init__(self, host):
        self.host = host
        self.mode = 'parent'
        self.next_pid = 100
        self.children = {}       # pid -> dict(ops=[...], status=int, reaped=bool)
        self.cur_pid = None

    def fork(self):
        return 0 if self.mode == 'child' else self.cur_pid

    def kill(self, pid, sig, by='parent'):
        ch = self.children.get(pid)
        if ch is None:
            raise ProcessLookupError(errno.ESRCH, 'No such process')
        ch['ops'] = []
        ch['status'] = sig & 0x7f      # wait status of a process terminated by a signal
        w = CTX.world
        if w is not None:
            w.probe('fork_child_killed_by_' + by)

    def waitpid(self, pid, flags):
        ch = self.children.get(pid)
        if ch is None:
            raise ChildProcessError(errno.ECHILD, 'No child processes')
        if ch['ops'] and not flags:
            # blocking wait: the child runs to its end
            w = CTX.world
            fs = w.hosts[self.host].fs
            while self.child_step(fs, pid):
                pass
        if ch['ops']:
            return (0, 0)
        del self.children[pid]
        return (pid, ch['status'])

    def pending_children(self):
        return [pid for pid in sorted(self.children) if self.children[pid]['ops']]

    def child_step(self, fs, pid):
        ch = self.children.get(pid)
        if ch is None or not ch['ops']:
            return False
        kind, path, fn = ch['ops'].pop(0)
        # the child is a process of its own: its storage ops are not kill points of the parent
        fs.in_child = True
        try:
            fs.mutate(kind, path, fn)
        finally:
            fs.in_child = False
        return True


def install_seams(jr, sr, so):
    osm = types.ModuleType('simos')
    osm.path = types.SimpleNamespace(exists=_exists, isfile=_exists)
    osm.rename = _rename
    osm.remove = _remove
    osm.fork = _fork
    osm.waitpid = _waitpid
    osm._exit = _exit
    osm.kill = _kill
    osm.WNOHANG = 1
    for nm in ('WEXITSTATUS', 'WIFEXITED', 'WIFSIGNALED', 'WTERMSIG', 'WIFSTOPPED', 'WSTOPSIG'):
        setattr(osm, nm, getattr(_realos, nm))
    mm = types.ModuleType('simmmap')
    mm.mmap = lambda fileno, length: SimMmap(_fs(), fileno, length)
    sh = types.ModuleType('simshutil')
    sh.move = _rename
    jr.open = sim_open
    jr.os = osm
    jr.mmap = mm
    jr.shutil = sh
    sr.open = sim_open
    sr.os = osm
    sr.atomicReplace = _rename
    gz = types.ModuleType('simgzip')
    gz.GzipFile = GzipFileShim
    sr.gzip = gz
    so.os = osm

    orig = sr.Serializer.serialize

    def serialize(self, data, id):
        from .boot import priv
        w = CTX.world
        host = w.hosts[w.cur]
        if host.doomed:
            return        # the process died earlier in this event: it forks nothing any more
        use_fork = priv(self, 'Serializer', 'useFork')
        if not use_fork or priv(self, 'Serializer', 'fileName') is None or priv(self, 'Serializer', 'pid') != 0:
            return orig(self, data, id)
        fe = host.forkemu
        fs = host.fs
        fe.mode = 'child'
        fs.capture = []
        status = None
        try:
            orig(self, data, id)
        except ChildExit as e:
            status = e.code
        finally:
            ops = fs.capture
            fs.capture = None
            fe.mode = 'parent'
        if status is None:
            from .boot import HarnessError
            raise HarnessError('fork child pass returned without os._exit')
        pid = fe.next_pid
        fe.next_pid += 1
        # wait status of a process that exited: the low byte of the exit code in bits 8-15
        fe.children[pid] = dict(ops=ops, status=(status & 0xff) << 8, t_start=w.T)
        fe.cur_pid = pid
        w.probe('fork_child_started')
        return orig(self, data, id)     # parent pass: stores the pid and returns
    sr.Serializer.serialize = serialize
    sr._vsim_orig_serialize = orig
