"""World: hosts, virtual clocks, event execution (the tick engine).

One event = [dt, kind, *args] (JSON-friendly).  World.apply(ev) advances virtual
time by dt, executes the event and returns a short outcome string.  Nothing in
here draws random numbers for scheduling: the scheduler (sched.py) generates the
event list, replay executes a stored list.
"""
import random
import hashlib

from .boot import CTX, M, HarnessError, priv, install
from . import net as simnet
from . import fs as simfs


class Host(object):
    def __init__(self, idx, addr, readonly=False):
        self.idx = idx
        self.addr = addr             # 'ip:port' or None for a read-only node
        self.readonly = readonly
        self.fs = simfs.FS(idx)
        self.forkemu = simfs.ForkEmu(idx)
        self.node = None
        self.inc = 0
        self.doomed = False
        self.rng = random.Random(0)
        self.rate = 1.0
        self.off = 1000.0
        self.exc = 0
        self.member = True           # part of the initial cluster
        self.extra = {}              # property-specific per-host harness state


class World(object):
    def __init__(self, seed, cfg, app):
        install()
        self.seed = seed
        self.cfg = cfg
        self.app = app
        self.T = 0.0
        self.cur = 0
        self.net = simnet.Net(self, cap=cfg.get('cap', 1 << 16))
        self.net.cpu_cost = cfg.get('cpu_cost', 2e-5)
        self.net.poll_shuffle = cfg.get('poll_shuffle', False)
        self.net.short_write = cfg.get('short_write', False)
        self.net.blocked = self.blocked
        self.net.poller_kind = cfg.get('poller', 'sim')
        self.net.fd_reuse = bool(cfg.get('fd_reuse', False))
        self.net.sync_fail_p = float(cfg.get('sync_connect_fail', 0.0))
        self.net_rng = random.Random(seed * 7919 + 17)
        self.hosts = []
        self.groups = None           # host idx -> partition group, or None
        self.cuts = set()            # pairs (a, b) of hosts that cannot reach each other (black hole)
        self.probes = {}
        self.faults = {}
        self.nfaults = 0
        self.evno = 0
        self.tick_exc = []           # (evno, host, repr(exc), origin)
        self.oracle = None
        self.tap = None              # object with on_send / on_recv, or None
        self.step_applies = []       # filled by the workload during the current event
        self.step_callbacks = []
        self.step_loads = []         # (host, kind) snapshot loads during the current event
        self.step_states = []        # (host, old, new) raft state changes during the event
        self.chunks_out = {}         # (sender host, receiver id) -> chunks of the big entry being sent
        self.snap_sent = None
        self.digest = hashlib.sha256()
        self.trace = []              # executed events with outcomes
        self.keep_trace = True
        import os as _os
        vf = _os.environ.get('VERIF_TRACE_FROM')
        self.verbose_from = int(vf) if vf else None
        nv = cfg.get('n_voters', 3)
        nro = cfg.get('n_ro', 0)
        nextra = cfg.get('n_spare', 0)      # hosts that may be added later (C10)
        for i in range(nv + nextra):
            h = Host(i, '10.0.0.%d:%d' % (i + 1, 4001 + i))
            h.member = i < nv
            self.hosts.append(h)
            self.net.port_to_host[4001 + i] = i
        for j in range(nro):
            h = Host(nv + nextra + j, None, readonly=True)
            self.hosts.append(h)
        for h in self.hosts:
            h.fs.ubuf = bool(cfg.get('fs_ubuf', False))
        rates = cfg.get('clock_rates')
        for h in self.hosts:
            if rates:
                h.rate = rates[h.idx % len(rates)]
            h.off = 1000.0 + 37.0 * h.idx

    # -- context ----------------------------------------------------------------
    def mono(self):
        h = self.hosts[self.cur]
        return h.off + h.rate * self.T

    def wall(self):
        return 1700000000.0 + self.T

    def sleep(self, d):
        if d and d > 0:
            self.T += d

    def host_rng(self):
        return self.hosts[self.cur].rng

    def host_rng_aux(self):
        h = self.hosts[self.cur]
        if getattr(h, 'rng_aux_inc', None) != h.inc:
            h.rng_aux = random.Random(self.seed * 7919 + h.idx * 104729 + h.inc * 31 + 17)
            h.rng_aux_inc = h.inc
        return h.rng_aux

    def probe(self, name, n=1):
        self.probes[name] = self.probes.get(name, 0) + n

    def fault(self, name, n=1):
        self.faults[name] = self.faults.get(name, 0) + n
        self.nfaults += n

    def blocked(self, a, b):
        if self.cuts and ((a, b) in self.cuts or (b, a) in self.cuts):
            return True
        g = self.groups
        if g is None:
            return False
        return g[a] != g[b]

    def voters(self):
        return [h for h in self.hosts if not h.readonly]

    # -- lifecycle --------------------------------------------------------------
    def start(self, i):
        h = self.hosts[i]
        if h.node is not None:
            return 'up'
        h.inc += 1
        h.doomed = False
        h.rng = random.Random(self.seed * 1000003 + i * 1009 + h.inc)
        self.cur = i
        CTX.world = self
        # an orphaned fork child of the previous incarnation finishes before the new process gets to
        # write a dump of its own (two writers of the same '<dump>.tmp' are outside the crash model)
        for pid in h.forkemu.pending_children():
            while h.forkemu.child_step(h.fs, pid):
                self.probe('orphan_child_op_before_restart')
        try:
            h.node = self.app.make_node(self, h)
        except HarnessError:
            raise
        except Exception as e:
            # the process cannot even start on its durable state
            h.node = None
            self.net.kernel_close_host(i)
            self.probe('start_exception_' + type(e).__name__)
            if h.doomed:
                # it was killed while starting (the exception is the doomed process' own business)
                return 'exc:' + type(e).__name__
            if self.oracle is not None and hasattr(self.oracle, 'on_start_failed'):
                self.oracle.on_start_failed(h, e, _origin(e))
            return 'exc:' + type(e).__name__
        if h.doomed:
            return 'started'
        if self.oracle is not None:
            self.oracle.on_start(h)
        return 'started'

    def kill(self, i, orphan_children=True):
        """Process death between two events."""
        h = self.hosts[i]
        if h.node is None:
            return 'down'
        if self.oracle is not None:
            self.oracle.on_kill(h)
        self._drop(h, orphan_children)
        return 'killed'

    def _drop(self, h, orphan_children=True):
        self.net.kernel_close_host(h.idx)
        node = h.node
        h.node = None
        h.doomed = False
        h.fs.fds = {}
        h.fs.kill_at = None
        if not orphan_children:
            h.forkemu.children = {}
        self.app.on_drop(self, h, node)

    def on_fs_kill(self, host):
        """Called by the FS at the primitive op chosen as the kill point."""
        h = self.hosts[host]
        h.doomed = True
        self.fault('kill_at_storage_op')
        k = h.fs.killed_in
        self.fault('kill_in_%s' % k[1])
        if self.oracle is not None:
            self.oracle.on_kill(h)

    def _finish_kill(self, h):
        img = h.fs.image
        self._drop(h)
        h.fs.restore(img)

    # -- event execution --------------------------------------------------------
    def apply(self, ev):
        CTX.world = self
        self.evno += 1
        dt, kind = ev[0], ev[1]
        if dt:
            self.T += dt
        self.step_applies = []
        self.step_callbacks = []
        self.step_loads = []
        self.step_states = []
        touched = None
        out = 'ok'
        if kind == 'tick':
            i = ev[2]
            h = self.hosts[i]
            if h.node is None:
                out = 'down'
            else:
                touched = i
                self.cur = i
                self.tick_start_mono = self.mono()
                try:
                    h.node._onTick(0.0)
                except HarnessError:
                    raise
                except Exception as e:
                    h.exc += 1
                    out = 'exc:' + type(e).__name__
                    self.tick_exc.append((self.evno, i, repr(e)[:200], _origin(e)))
                    self.probe('tick_exception_' + type(e).__name__)
                if h.doomed:
                    self._finish_kill(h)
                    out = 'died'
        elif kind == 'dlv':
            out = self.net.deliver(ev[2], ev[3])
        elif kind == 'conn':
            out = self.net.resolve_connect(ev[2], ev[3])
        elif kind == 'rst':
            out = self.net.inject_reset(ev[2], ev[3])
            if out == 'ok':
                self.fault('reset')
        elif kind == 'hold':
            p = self.net.pipes.get(ev[2])
            if p is None:
                out = 'gone'
            else:
                p.held = bool(ev[3])
                if p.held:
                    self.fault('hold_pipe')
        elif kind == 'part':
            self.groups = list(ev[2])
            self.fault('partition')
        elif kind == 'cut':
            self.cuts.add((ev[2], ev[3]))
            self.fault('blackhole_pair')
        elif kind == 'heal':
            self.groups = None
            self.cuts = set()
            for p in self.net.pipes.values():
                p.held = False
            self.fault('heal')
        elif kind == 'sub':
            i = ev[2]
            h = self.hosts[i]
            if h.node is None:
                out = 'down'
            else:
                touched = i
                self.cur = i
                out = self.app.submit(self, h, ev[3:])
                if h.doomed:
                    self._finish_kill(h)
                    out = 'died'
        elif kind == 'kill':
            i = ev[2]
            out = self.kill(i, orphan_children=(len(ev) < 4 or bool(ev[3])))
            if out == 'killed':
                self.fault('kill_between_steps')
        elif kind == 'killop':
            # the process dies at its k-th primitive storage op from now
            i, k, mode = ev[2], ev[3], ev[4]
            h = self.hosts[i]
            if h.node is None:
                out = 'down'
            else:
                h.fs.kill_at = h.fs.ops + k
                h.fs.kill_mode = mode
                h.fs.torn_frac = ev[5] if len(ev) > 5 else 0.5
                h.fs.image = None
        elif kind == 'start':
            if len(ev) > 3 and self.hosts[ev[2]].node is None:
                # the process dies at its k-th storage op from now - possibly while it is still starting (creating its
                # journal file, loading, repairing)
                h = self.hosts[ev[2]]
                h.fs.kill_at = h.fs.ops + ev[3]
                h.fs.kill_mode = ev[4]
                h.fs.torn_frac = ev[5] if len(ev) > 5 else 0.5
                h.fs.image = None
            out = self.start(ev[2])
            touched = ev[2]
            if self.hosts[ev[2]].doomed:
                self._finish_kill(self.hosts[ev[2]])
                self.probe('killed_while_starting')
                out = 'died'
                touched = None
            if out == 'started':
                self.fault('restart') if self.hosts[ev[2]].inc > 1 else None
        elif kind == 'compact':
            h = self.hosts[ev[2]]
            if h.node is None:
                out = 'down'
            else:
                h.node.forceLogCompaction()
                self.fault('forced_compaction')
        elif kind == 'childkill':
            # the dump writer (fork child) alone dies by a signal (out-of-memory killer, operator): its remaining
            # storage ops never happen, the parent's waitpid reports a process terminated by signal 9
            h = self.hosts[ev[2]]
            pids = h.forkemu.pending_children()
            if not pids:
                out = 'none'
            else:
                h.forkemu.kill(pids[0], 9, by='signal')
                self.fault('fork_child_killed_by_signal')
        elif kind == 'child':
            h = self.hosts[ev[2]]
            pids = h.forkemu.pending_children()
            if not pids:
                out = 'none'
            else:
                self.cur = h.idx
                h.forkemu.child_step(h.fs, pids[0])
                self.probe('fork_child_op')
                if h.doomed:
                    # the kill point chosen for the parent fell on this storage op of its child
                    self._finish_kill(h)
                    out = 'died'
        elif kind == 'jump':
            h = self.hosts[ev[2]]
            h.off += ev[3]
            self.fault('clock_jump')
        elif kind == 'nop':
            if len(ev) > 2 and ev[2] == 'quiet':
                # faults stop here: kill points that were armed but have not fired are disarmed
                for h in self.hosts:
                    if not h.doomed:
                        h.fs.kill_at = None
        else:
            out = self.app.apply_event(self, ev)
            if isinstance(out, tuple):
                out, touched = out
        if self.oracle is not None:
            self.oracle.after_event(ev, out, touched)
        if self.verbose_from is not None and self.evno >= self.verbose_from:
            print(self.evno, 'T=%.4f' % self.T, ev, out, [self.state_line(h.idx) for h in self.hosts],
                  self.step_applies or '', self.step_loads or '', self.step_callbacks or '')
        if self.keep_trace:
            self.trace.append(ev)
        self.digest.update(repr((ev, out)).encode())
        if touched is not None:
            self.digest.update(self.state_line(touched).encode())
        return out

    def state_line(self, i):
        n = self.hosts[i].node
        if n is None:
            return 'h%d:down' % i
        try:
            return 'h%d:%d,%d,%d,%d,%d' % (i, n.raftCurrentTerm, priv(n, 'SyncObj', 'raftState'),
                                            n.raftCommitIndex, n.raftLastApplied, n._getRaftLogSize())
        except HarnessError:
            raise
        except Exception:
            return 'h%d:?' % i

    def hexdigest(self):
        return self.digest.hexdigest()

    def destroy(self):
        for h in self.hosts:
            if h.node is not None:
                try:
                    self.cur = h.idx
                    self._drop(h)
                except Exception:
                    pass
        CTX.world = None


def _origin(e):
    tb = e.__traceback__
    last = None
    while tb is not None:
        fn = tb.tb_frame.f_code.co_filename
        if 'pysyncobj' in fn:
            last = '%s:%s:%d' % (fn.rsplit('/', 1)[-1], tb.tb_frame.f_code.co_name, tb.tb_lineno)
        tb = tb.tb_next
    return last
