"""Thread engine (baton passing): real threads, exactly one of which runs at a time.

The scheduler (main thread) picks the next runnable thread with the run's PRNG.
Pre-emption points: sys.settrace line events in files under pysyncobj/ (and in the
workload functions), where the PRNG decides whether to yield; blocking points:
SimLock.acquire on a held lock, SimEvent.wait, time.sleep, poller.poll(timeout),
Thread.join - each parks the thread with a wake condition and/or a virtual deadline.
When nothing is runnable the virtual clock jumps to the earliest deadline.
"""
import sys
import types
import hashlib
import threading as _th

from .boot import CTX, M, install, HarnessError
from . import net as simnet


class Sched(object):
    def __init__(self, world, rng, preempt_p=0.02, opcode=False):
        self.w = world
        self.rng = rng
        self.threads = []
        self.cur = None
        self.main_sem = _th.Semaphore(0)
        self.digest = hashlib.sha256()
        self.steps = 0
        self.preempt_p = preempt_p
        self.opcode = opcode
        self.preemptions = 0
        self.overlaps = 0            # pre-emptions inside _applyCommand / FastQueue code while another caller is inside too
        self.inside = {}             # thread name -> depth inside the watched functions
        self.trace_paths = ('/pysyncobj/',)
        self.deadlocked = []

    @property
    def now(self):
        return self.w.T

    def spawn(self, fn, name, host=0, traced=True):
        t = MThread(self, fn, name, host, traced)
        self.threads.append(t)
        t.real.start()
        return t

    def loop(self, max_steps=400000, until=None):
        w = self.w
        while True:
            if until is not None and until():
                return 'until'
            runnable = [t for t in self.threads if t.alive and t.runnable(self)]
            if not runnable:
                sleepers = [t for t in self.threads if t.alive and t.wake_at is not None]
                if not sleepers:
                    blocked = [t for t in self.threads if t.alive]
                    if blocked:
                        self.deadlocked = [t.name for t in blocked]
                    return 'idle'
                w.T = max(w.T, min(t.wake_at for t in sleepers))
                continue
            t = runnable[0] if len(runnable) == 1 else runnable[self.rng.randrange(len(runnable))]
            self.digest.update(t.name.encode())
            self.steps += 1
            if self.steps > max_steps:
                return 'steps'
            t.wake_at = None
            t.wait_on = None
            self.cur = t
            w.cur = t.host
            CTX.world = w
            t.sem.release()
            self.main_sem.acquire()
            self.cur = None
            if t.exc is not None and t.fatal:
                raise t.exc

    # called from a managed thread
    def yield_(self, wake_at=None, wait_on=None):
        t = self.cur
        if t is None or _th.current_thread() is not t.real:
            raise HarnessError('yield from a thread that does not hold the baton')
        t.wake_at = wake_at
        t.wait_on = wait_on
        self.main_sem.release()
        t.sem.acquire()


class MThread(object):
    def __init__(self, sched, fn, name, host, traced):
        self.sched, self.fn, self.name, self.host, self.traced = sched, fn, name, host, traced
        self.sem = _th.Semaphore(0)
        self.alive = True
        self.wake_at = None
        self.wait_on = None
        self.exc = None
        self.fatal = False
        self.real = _th.Thread(target=self._run)
        self.real.daemon = True

    def runnable(self, s):
        if self.wait_on is not None:
            if self.wait_on():
                return True
            return self.wake_at is not None and s.now >= self.wake_at
        if self.wake_at is not None:
            return s.now >= self.wake_at
        return True

    def _trace(self, frame, event, arg):
        fn = frame.f_code.co_filename
        for p in self.sched.trace_paths:
            if p in fn:
                if self.sched.opcode:
                    frame.f_trace_opcodes = True
                return self._ltrace
        return None

    def _ltrace(self, frame, event, arg):
        if event == 'line' or event == 'opcode':
            s = self.sched
            if s.rng.random() < s.preempt_p:
                s.preemptions += 1
                name = frame.f_code.co_name
                if name in ('_applyCommand', 'put_nowait', 'get_nowait', 'newFunc', 'onResult', '_checkCommandsToApply'):
                    s.overlaps += 1
                s.yield_()
        return self._ltrace

    def _run(self):
        self.sem.acquire()
        if self.traced:
            sys.settrace(self._trace)
        try:
            self.fn()
        except HarnessError as e:
            self.exc = e
            self.fatal = True
        except BaseException as e:       # noqa
            self.exc = e
        finally:
            sys.settrace(None)
            self.alive = False
            self.sched.main_sem.release()


S = types.SimpleNamespace(s=None)


def cur():
    return S.s


class SimEvent(object):
    def __init__(self):
        self.flag = False

    def set(self):
        self.flag = True

    def is_set(self):
        return self.flag

    isSet = is_set

    def clear(self):
        self.flag = False

    def wait(self, timeout=None):
        if self.flag:
            return True
        s = cur()
        s.yield_(wake_at=None if timeout is None else s.now + timeout, wait_on=lambda: self.flag)
        return self.flag


class SimLock(object):
    def __init__(self):
        self.held = False

    def acquire(self, blocking=True, timeout=-1):
        s = cur()
        while self.held:
            if not blocking:
                return False
            s.yield_(wait_on=lambda: not self.held)
        self.held = True
        return True

    def release(self):
        self.held = False

    def __enter__(self):
        self.acquire()
        return self

    def __exit__(self, *a):
        self.release()


class SimThreadHandle(object):
    """Replacement for threading.Thread inside pysyncobj.syncobj."""
    counter = [0]

    def __init__(self, target=None, args=(), kwargs=None, name=None):
        self.target, self.args, self.kwargs = target, args, kwargs or {}
        self.m = None

    def start(self):
        s = cur()
        SimThreadHandle.counter[0] += 1
        host = s.w.cur
        self.m = s.spawn(lambda: self.target(*self.args, **self.kwargs), 'tick-h%d-%d' % (host, SimThreadHandle.counter[0]), host=host)

    def is_alive(self):
        return self.m is not None and self.m.alive

    def join(self, timeout=None):
        s = cur()
        s.yield_(wait_on=lambda: not self.m.alive, wake_at=None if timeout is None else s.now + timeout)


class _Main(object):
    def is_alive(self):
        return True


_main = _Main()


def make_threading_module():
    m = types.ModuleType('simthreading')
    m.Event, m.Lock, m.Thread = SimEvent, SimLock, SimThreadHandle
    m.current_thread = lambda: _main
    return m


class ThTime(object):
    @staticmethod
    def sleep(d):
        s = cur()
        if s is None or s.cur is None:
            CTX.world.sleep(d)
            return
        s.yield_(wake_at=s.now + max(0.0, d))

    @staticmethod
    def time():
        return CTX.world.wall()


class ThPoller(simnet.SimPoller):
    def poll(self, timeout):
        s = cur()
        net = self.net

        def ready():
            for fd in self.subs:
                so = net.socks.get(fd)
                if so is not None and so.ready() & (self.subs[fd][1] | 4):
                    return True
            return False
        if timeout and s is not None and s.cur is not None and not ready():
            # like poll(2): block until something is ready or the timeout expires
            s.yield_(wake_at=s.now + timeout, wait_on=ready)
        simnet.SimPoller.poll(self, 0)


def create_th_poller(pollerType):
    w = CTX.world
    return ThPoller(w.net, w.cur)


_saved = {}


def install_thread_seams():
    """Rebind the threading/time/poller seams for the thread engine (process-wide)."""
    install()
    so, fq = M.so, M.fq
    if not _saved:
        _saved.update(threading_so=so.threading, threading_fq=fq.threading, time_so=so.time, poller=so.createPoller)
    thmod = make_threading_module()
    so.threading = thmod
    fq.threading = thmod
    so.time = ThTime
    so.createPoller = create_th_poller
    so.PIPE_NOTIFIER_ENABLED = False


def uninstall_thread_seams():
    """Put the tick engine's seams back (a process that runs both engines one after the other - the self-test - must
    not carry the thread engine's poller and time shims into later tick-engine runs)."""
    if not _saved:
        return
    so, fq = M.so, M.fq
    so.threading = _saved['threading_so']
    fq.threading = _saved['threading_fq']
    so.time = _saved['time_so']
    so.createPoller = _saved['poller']

