"""Workload object, its sequential reference model, and the cluster 'app' plugin.

Every command carries a unique integer tag, so each apply and each result is
attributable to one submission.  The methods are order-sensitive (rolling hash).
"""
import pickle as _pickle
import random as _random

from .boot import CTX, M, install, priv, HarnessError

MASK = (1 << 48) - 1
NKEYS = 8


def mix(h, tag):
    return ((h * 1000003) ^ (tag * 2654435761 + 12345)) & MASK


def payload(tag, n, compressible=False):
    if n <= 0:
        return b''
    if compressible:
        return bytes([tag % 251]) * n
    return _random.Random(tag * 7 + n).randbytes(n)


_classes = {}

ORACLE_DECODING = [False]


def _revive(tag):
    """Unpickling hook of Unloadable: raises whenever the library decodes the command (on every replica alike);
    only the oracle's own decoding gets a placeholder."""
    if ORACLE_DECODING[0]:
        return ('__unloadable__', tag)
    raise ValueError('argument of command %d cannot be rebuilt' % tag)


class Unloadable(object):
    """An argument that pickles but cannot be unpickled (an exception class with a two-argument constructor, an
    object of a class that was renamed, ...): the command raises while its arguments are decoded, before the method
    body runs."""

    def __init__(self, tag):
        self.tag = tag

    def __reduce__(self):
        return (_revive, (self.tag,))


def _brief(msg):
    if not isinstance(msg, dict):
        return repr(msg)[:80]
    out = {}
    for k, v in msg.items():
        if k == 'entries':
            out[k] = [(e[1], e[2]) for e in v]
        elif k in ('data', 'command'):
            out[k] = '<%d bytes>' % len(v)
        elif k == 'serialized':
            out[k] = None if v is None else ('<%d bytes>' % len(v[0]), v[1], v[2])
        else:
            out[k] = v
    return out


def get_classes():
    """Build the workload classes against the repository imported from REPO."""
    if _classes:
        return _classes
    install()
    so = M.so
    SyncObj, replicated = so.SyncObj, so.replicated

    class AppError(Exception):
        pass

    class AppSyncObjError(so.SyncObjException):
        pass

    class SimObj(SyncObj):
        def __init__(self, vh, me, others, conf, consumers=None):
            # harness fields go BEFORE SyncObj.__init__: attributes that exist when it
            # finishes are excluded from snapshots, later ones are replicated state
            self._vh = vh
            self._vw = CTX.world
            SyncObj.__init__(self, me, others, conf, consumers=consumers)
            self.cnt = 0
            self.h = 0
            self.kv = {}

        def _rec(self, tag, extra=None):
            w = self._vw
            vh = self._vh
            if not vh.doomed:
                w.step_applies.append((vh.idx, vh.inc, self.raftLastApplied + 1, tag, extra))

        @replicated
        def append(self, tag, pad=None):
            self._rec(tag)
            self.cnt += 1
            self.h = mix(self.h, tag)
            self.kv[tag % NKEYS] = tag
            return (self.cnt, self.h)

        @replicated
        def echo(self, tag, *args, **kwargs):
            self._rec(tag, (args, kwargs))
            self.cnt += 1
            self.h = mix(self.h, tag)
            self.kv[tag % NKEYS] = tag
            return (self.cnt, self.h)

        @replicated
        def boom(self, tag):
            self._rec(tag)
            # the kind of exception is a function of the command (the same on every replica): built-in ones, an
            # application-defined one, and the library's own public exception class and a subclass of it
            # (what an application raises for a refusal, or what a nested synchronous call raises on time-out)
            k = tag % 6
            if k == 0:
                raise ValueError('boom %d' % tag)
            if k == 1:
                raise KeyError(tag)
            if k == 2:
                raise AppError('boom %d' % tag)
            if k == 3:
                raise so.SyncObjException('boom %d' % tag)
            if k == 4:
                raise AppSyncObjError('boom %d' % tag)
            raise AssertionError('boom %d' % tag)

    _classes['SimObj'] = SimObj

    # harness-level wrappers (no repository edit): observe snapshot loads and messages
    name = '_SyncObj__loadDumpFile'
    if not hasattr(SyncObj, name):
        raise HarnessError('SyncObj.__loadDumpFile not found')
    orig_load = getattr(SyncObj, name)

    def load_wrapper(self, clearJournal):
        w = CTX.world
        before = self.raftLastApplied
        r = orig_load(self, clearJournal)
        if w is not None:
            w.step_loads.append((w.cur, bool(clearJournal), before, self.raftLastApplied))
            w.probe('snapshot_install' if clearJournal else 'dump_load_on_start')
        return r
    setattr(SyncObj, name, load_wrapper)

    TCPT = M.tr.TCPTransport
    orig_send = TCPT.send

    def send_wrapper(self, node, message):
        ok = orig_send(self, node, message)
        w = CTX.world
        if w is not None:
            if isinstance(message, dict) and message.get('serialized') is not None:
                # (for the scheduler's adversary) which node is being sent a snapshot right now
                for h in w.hosts:
                    if h.addr is not None and h.addr == getattr(node, 'id', None):
                        w.snap_sent = (h.idx, w.evno)
            if isinstance(message, dict) and message.get('type') == 'append_entries' and w.oracle is not None:
                _check_sent_entries(w, self, node, message)
            if w.tap is not None:
                w.tap.on_send(w.cur, node, message, ok)
            if w.verbose_from is not None and w.evno >= w.verbose_from:
                print('      send h%d -> %s %s ok=%s' % (w.cur, node, _brief(message), ok))
        return ok
    TCPT.send = send_wrapper
    orig_recv = TCPT._onMessageReceived

    def recv_wrapper(self, node, message):
        w = CTX.world
        if w is not None:
            if w.tap is not None:
                w.tap.on_recv(w.cur, node, message)
            if w.verbose_from is not None and w.evno >= w.verbose_from:
                print('      recv h%d <- %s %s' % (w.cur, node, _brief(message)))
        return orig_recv(self, node, message)
    TCPT._onMessageReceived = recv_wrapper
    return _classes


def _check_sent_entries(w, transport, node, message):
    """Whatever a leader sends as the entry of a log position - in one message or in the chunks of a big entry - is the entry its
    own log holds at that position at that moment (same command, index and term)."""
    so = transport._syncObj
    host = w.hosts[w.cur]
    if host.doomed:
        return
    log = so._SyncObj__raftLog
    if len(log) == 0:
        return
    ents = None
    tr = message.get('transmission')
    if tr is None:
        ents = message.get('entries') or []
        w.chunks_out.pop((w.cur, getattr(node, 'id', None)), None)
    else:
        key = (w.cur, getattr(node, 'id', None))
        if tr == 'start':
            w.chunks_out[key] = [message['data']]
        elif key in w.chunks_out:
            w.chunks_out[key].append(message['data'])
        if tr == 'finish' and key in w.chunks_out:
            blob = b''.join(bytes(x) if not isinstance(x, bytes) else x for x in w.chunks_out.pop(key))
            try:
                ents = [_pickle.loads(blob)]
            except Exception:
                ents = None
                w.oracle.flag('sent_entry_not_in_log', 'host %d sent a chunked entry to %s whose chunks do not add up to a pickled entry' % (w.cur, getattr(node, 'id', None)))
    if not ents:
        return
    base = log[0][1]
    for e in ents:
        k = e[1] - base
        mine = log[k] if 0 <= k < len(log) else None
        if mine is None or mine[1] != e[1] or mine[2] != e[2] or bytes(mine[0]) != bytes(e[0]):
            w.probe('sent_entry_checked_mismatch')
            w.oracle.flag('sent_entry_not_in_log', 'host %d (term %d) sent as entry of position %d (term %d, %d bytes) something else than its own log holds there (%s)' % (
                w.cur, so.raftCurrentTerm, e[1], e[2], len(e[0]), 'term %d, %d bytes' % (mine[2], len(mine[0])) if mine is not None else 'nothing'))
            return
    w.probe('sent_entries_checked', len(ents))


class KVModel(object):
    """Sequential reference model of SimObj: replay(commands) -> states, results."""
    INIT = (0, 0, (None,) * NKEYS)

    @staticmethod
    def step(state, name, args):
        """-> (new_state, result, raised)"""
        if name in ('append', 'echo'):
            tag = args[0]
            cnt, h, kv = state
            cnt += 1
            h = mix(h, tag)
            kv = kv[:tag % NKEYS] + (tag,) + kv[tag % NKEYS + 1:]
            return (cnt, h, kv), (cnt, h), False
        if name == 'boom':
            return state, None, True
        raise HarnessError('model: unknown method %r' % (name,))

    @staticmethod
    def observe(node):
        kv = node.kv
        return (node.cnt, node.h, tuple(kv.get(i) for i in range(NKEYS)))


CONF_KEYS = ('appendEntriesUseBatch', 'appendEntriesBatchSizeBytes', 'logCompactionMinEntries',
             'logCompactionMinTime', 'logCompactionBatchSize', 'raftMinTimeout', 'raftMaxTimeout',
             'appendEntriesPeriod', 'connectionTimeout', 'connectionRetryTime', 'leaderFallbackTimeout',
             'commandsQueueSize', 'commandsWaitLeader', 'dynamicMembershipChange', 'useFork',
             'sendBufferSize', 'recvBufferSize', 'logCompactionSplit', 'tcp_keepalive')


class KVApp(object):
    """Cluster plugin: builds nodes, performs submissions, decodes commands."""
    model = KVModel

    def __init__(self, cfg):
        self.cfg = cfg
        self.idmap = None           # funcID -> method base name

    # -- nodes ------------------------------------------------------------------
    def make_conf(self, world, host):
        c = self.cfg.get('conf', {})
        kw = dict((k, c[k]) for k in CONF_KEYS if k in c)
        kw['autoTick'] = False
        if c.get('journal') and not host.readonly:
            kw['journalFile'] = 'journal'
        if c.get('dump'):
            kw['fullDumpFile'] = 'dump'
        if 'tcp_keepalive' in kw and kw['tcp_keepalive'] is not None:
            kw['tcp_keepalive'] = tuple(kw['tcp_keepalive'])
        idx = host.idx

        def on_state(old, new):
            w = CTX.world
            if w is None or w.hosts[idx].doomed:
                return
            w.step_states.append((idx, old, new))
            if w.oracle is not None:
                w.oracle.on_state(w.hosts[idx], old, new)
        kw['onStateChanged'] = on_state
        return M.cf.SyncObjConf(**kw)

    def peers_of(self, world, host):
        return [h.addr for h in world.hosts if h.member and not h.readonly and h.idx != host.idx]

    def node_class(self):
        return get_classes()['SimObj']

    def make_node(self, world, host):
        cls = self.node_class()
        conf = self.make_conf(world, host)
        node = cls(host, host.addr, self.peers_of(world, host), conf, consumers=self.make_consumers(world, host))
        if self.idmap is None:
            self.idmap = {}
            for fid, m in node._idToMethod.items():
                nm = m.__name__
                self.idmap[fid] = nm.rsplit('_v', 1)[0]
        return node

    def make_consumers(self, world, host):
        return None

    def on_drop(self, world, host, node):
        pass

    # -- submissions ------------------------------------------------------------
    def submit(self, world, host, args):
        """args = [method, tag, padlen, ...]"""
        meth, tag = args[0], args[1]
        node = host.node
        idx = host.idx

        def cb(res, err):
            w = CTX.world
            if w is not None and not w.hosts[idx].doomed:
                n = w.hosts[idx].node
                # a SUCCESS/DISCARDED callback runs inside the apply loop, before raftLastApplied is
                # advanced: the position being applied is raftLastApplied + 1
                w.step_callbacks.append((tag, res, err, idx, (n.raftLastApplied + 1) if n is not None else None))
                if w.cfg.get('cb_raise') and tag % 5 == 2:
                    # an application callback with a bug of its own: it raises after it was called
                    w.probe('callback_raised')
                    raise RuntimeError('callback of command %d raises' % tag)
        if world.oracle is not None:
            world.oracle.on_submit(tag, host, meth)
        try:
            if meth == 'append':
                padlen = args[2] if len(args) > 2 else 0
                if padlen:
                    node.append(tag, payload(tag, padlen, len(args) > 3 and args[3]), callback=cb)
                else:
                    node.append(tag, callback=cb)
            elif meth == 'boom':
                node.boom(tag, callback=cb)
            elif meth == 'boomarg':
                node.echo(tag, Unloadable(tag), callback=cb)
            else:
                return self.submit_other(world, host, args, cb)
        except HarnessError:
            raise
        except Exception as e:
            world.probe('submit_exception_' + type(e).__name__)
            return 'exc:' + type(e).__name__
        return 'ok'

    def submit_other(self, world, host, args, cb):
        raise HarnessError('unknown submit %r' % (args,))

    def apply_event(self, world, ev):
        raise HarnessError('unknown event %r' % (ev,))

    # -- decoding ---------------------------------------------------------------
    def decode(self, cmd):
        """command bytes -> (kind, name, args, kwargs); kind in noop/member/version/regular"""
        t = cmd[0] if isinstance(cmd[0], int) else ord(cmd[0])
        if t == 1:
            return ('noop', None, None, None)
        if t == 2:
            return ('member', None, _pickle.loads(cmd[1:]), None)
        if t == 3:
            return ('version', None, _pickle.loads(cmd[1:]), None)
        ORACLE_DECODING[0] = True
        try:
            c = _pickle.loads(cmd[1:])
        finally:
            ORACLE_DECODING[0] = False
        args, kwargs = (), {}
        if not isinstance(c, tuple):
            fid = c
        elif len(c) == 2:
            fid, args = c
        else:
            fid, args, kwargs = c
        name = self.idmap.get(fid, fid)
        if any(isinstance(a, tuple) and len(a) == 2 and a[0] == '__unloadable__' for a in args):
            # the command raises while the library decodes it: for the reference it is a raising command
            return ('regular', 'boom', (args[0],), {'__unloadable__': True})
        return ('regular', name, args, kwargs)
