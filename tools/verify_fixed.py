#!/venv/bin/python
"""For every 'fixed' entry of known_findings.json: the stored replay must FAIL on the
parent of the fix commit and PASS on the fix commit (scratch worktrees under /tmp,
removed afterwards)."""
import os
import sys
import json
import subprocess

HERE = os.path.dirname(os.path.dirname(os.path.abspath(__file__)))


def sh(*a, **k):
    return subprocess.run(a, stdout=subprocess.PIPE, stderr=subprocess.STDOUT, text=True, **k)


def replay(repo, path):
    env = dict(os.environ, VERIF_REPO=repo)
    r = sh('/venv/bin/python', os.path.join(HERE, 'simcheck.py'), 'replay', path, env=env, timeout=600)
    return r.returncode, r.stdout.strip().splitlines()[-1:] if r.stdout else []


def main():
    only = sys.argv[1:]
    with open(os.path.join(HERE, 'known_findings.json')) as f:
        doc = json.load(f)
    bad = 0
    for k in doc['findings']:
        if k['status'] != 'fixed' or not k.get('replay'):
            continue
        if only and k['id'] not in only:
            continue
        path = os.path.join(HERE, k['replay'])
        res = {}
        for label, rev in (('before', k['commit'] + '^'), ('after', k.get('passes_at', k['commit']))):
            # passes_at: the stored history also runs into a second defect repaired by a later commit
            wt = '/tmp/wt_verify_%s_%s' % (k['id'], label)
            sh('git', '-C', '/repo', 'worktree', 'remove', '--force', wt)
            r = sh('git', '-C', '/repo', 'worktree', 'add', '--detach', wt, rev)
            if r.returncode != 0:
                print(k['id'], 'worktree failed', r.stdout)
                bad += 1
                continue
            try:
                res[label] = replay(wt, path)
            finally:
                sh('git', '-C', '/repo', 'worktree', 'remove', '--force', wt)
        ok = res.get('before', (0,))[0] == 1 and res.get('after', (1,))[0] == 0
        print('%-28s %s before=%s after=%s' % (k['id'], 'OK ' if ok else 'BAD', res.get('before'), res.get('after')))
        if not ok:
            bad += 1
    return 1 if bad else 0


if __name__ == '__main__':
    sys.exit(main())
