#!/venv/bin/python
"""dbg.py <PID> <seed> <k> <from_evno> <to_evno> - regenerate one run of a batch and print, for the events in the range,
the event, its outcome and every node's state (role, term, commit, applied, log range with terms, match indexes)."""
import os
import sys
sys.path.insert(0, os.path.dirname(os.path.dirname(os.path.abspath(__file__))))
from vsim import boot
boot.ensure_env()


def main():
    from vsim import runner, world as W
    pid, seed, k, a, b = sys.argv[1].upper(), int(sys.argv[2]), int(sys.argv[3]), int(sys.argv[4]), int(sys.argv[5])
    mod = runner.prop_module(pid)
    orig = W.World.apply

    def apply(self, ev):
        r = orig(self, ev)
        if a <= self.evno <= b:
            print('#%d T=%.4f %r' % (self.evno, self.T, ev))
            for h in self.hosts:
                n = h.node
                if n is None:
                    print('    h%d down' % h.idx)
                    continue
                log = n._SyncObj__raftLog
                ents = log[:]
                mi = dict((str(x.id)[-4:], v) for x, v in n._SyncObj__raftMatchIndex.items())
                ni = dict((str(x.id)[-4:], v) for x, v in n._SyncObj__raftNextIndex.items())
                print('    h%d inc%d st=%s term=%d commit=%d applied=%d log=%s match=%s next=%s%s' % (
                    h.idx, h.inc, n._SyncObj__raftState, n.raftCurrentTerm, n.raftCommitIndex, n.raftLastApplied,
                    ['%d:%d' % (e[1], e[2]) for e in ents[-8:]], mi, ni, ' DOOMED' if h.doomed else ''))
        return r
    W.World.apply = apply
    res = mod.run(seed, 'quick', k=k) if getattr(mod, 'WANTS_K', False) else mod.run(seed, 'quick')
    print(res['violations'], res['cross'])


if __name__ == '__main__':
    main()
