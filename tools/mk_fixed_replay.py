#!/venv/bin/python
"""mk_fixed_replay.py <finding-id> <fix-commit> <PROP> <runs> [inv,inv,...]
Search on the parent of the fix commit for a violation whose minimised replay fails there
and passes on the fix commit; store it as replays/fixed/<finding-id>.json."""
import os
import sys
import glob
import json
import shutil
import subprocess

HERE = os.path.dirname(os.path.dirname(os.path.abspath(__file__)))


def sh(*a, **k):
    return subprocess.run(a, stdout=subprocess.PIPE, stderr=subprocess.STDOUT, text=True, **k)


def main():
    fid, commit, prop, runs = sys.argv[1:5]
    invs = sys.argv[5].split(',') if len(sys.argv) > 5 else None
    before, after = '/tmp/wt_mk_before_' + fid, '/tmp/wt_mk_after_' + fid
    found = '/tmp/found_' + fid
    shutil.rmtree(found, ignore_errors=True)
    os.makedirs(found)
    for wt, rev in ((before, commit + '^'), (after, commit)):
        sh('git', '-C', '/repo', 'worktree', 'remove', '--force', wt)
        r = sh('git', '-C', '/repo', 'worktree', 'add', '--detach', wt, rev)
        assert r.returncode == 0, r.stdout
    try:
        env = dict(os.environ, VERIF_REPO=before, VERIF_RUNS=runs, VERIF_FOUND_DIR=found, VERIF_EVID_DIR=found,
                   VERIF_KNOWN_FILE='/nonexistent', VERIF_ALL_REPLAYS='1', VERIF_MIN_S=os.environ.get('VERIF_MIN_S', '60'))
        r = sh('/venv/bin/python', os.path.join(HERE, 'simcheck.py'), prop, 'quick', env=env, timeout=3000)
        print(r.stdout[-1500:])
        ok = None
        for f in sorted(glob.glob(found + '/%s_*.json' % prop)) + sorted(glob.glob(found + '/raw_%s_*.json' % prop)):
            d = json.load(open(f))
            if invs and d['violation']['inv'] not in invs:
                continue
            rb = sh('/venv/bin/python', os.path.join(HERE, 'simcheck.py'), 'replay', f, env=dict(os.environ, VERIF_REPO=before), timeout=900)
            ra = sh('/venv/bin/python', os.path.join(HERE, 'simcheck.py'), 'replay', f, env=dict(os.environ, VERIF_REPO=after), timeout=900)
            print(os.path.basename(f), 'before', rb.returncode, 'after', ra.returncode, len(d['events']), 'events')
            if rb.returncode == 1 and ra.returncode == 0 and ok is None:
                ok = f
                if os.path.basename(f).startswith('raw_'):
                    m = sh('/venv/bin/python', os.path.join(HERE, 'simcheck.py'), 'minimise', f, f + '.min', env=dict(os.environ, VERIF_REPO=before), timeout=900)
                    print(m.stdout[-300:])
                    if os.path.exists(f + '.min'):
                        ra2 = sh('/venv/bin/python', os.path.join(HERE, 'simcheck.py'), 'replay', f + '.min', env=dict(os.environ, VERIF_REPO=after), timeout=900)
                        if ra2.returncode == 0:
                            ok = f + '.min'
                break
        if ok:
            dst = os.path.join(HERE, 'replays', 'fixed', fid + '.json')
            os.makedirs(os.path.dirname(dst), exist_ok=True)
            shutil.copy(ok, dst)
            print('STORED', dst)
            return 0
        print('no suitable replay found')
        return 1
    finally:
        for wt in (before, after):
            sh('git', '-C', '/repo', 'worktree', 'remove', '--force', wt)
        shutil.rmtree(found, ignore_errors=True)


if __name__ == '__main__':
    sys.exit(main())
