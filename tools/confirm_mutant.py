#!/venv/bin/python
"""confirm_mutant.py <seeded-id> <PROP> <src-dir> [--no-suite] [--checks C01,C04] [--tier quick]

Confirm a seeded change delivered in <src-dir> (patch.diff, demo.py, NOTES.md):
  1. fresh scratch worktree of /repo HEAD under /tmp/cm/<seeded-id>
  2. demo.py exits 0 without the patch, non-zero with it
  3. the repository's test suite still passes with the patch (only the 4 tests that need the
     absent 'cryptography' module may fail)
  4. run the named checks (default: the property's own check) against the patched worktree
     (VERIF_REPO=<worktree>; equivalent to `git -C /repo apply`, but leaves /repo alone)
Results go to /verif/seeded/<seeded-id>/ (patch.diff, demo.py, NOTES.md, meta.json); the
scratch worktree is removed."""
import os
import re
import sys
import json
import shutil
import subprocess
import time

HERE = os.path.dirname(os.path.dirname(os.path.abspath(__file__)))
ALLOWED_FAIL = {'test_encryptionCorrectPassword', 'test_encryptionWrongPassword', 'test_readOnlyNodes', 'test_syncobjAdminStatus'}


def sh(*a, **k):
    return subprocess.run(a, stdout=subprocess.PIPE, stderr=subprocess.STDOUT, text=True, **k)


def main():
    args = [a for a in sys.argv[1:] if not a.startswith('--')]
    sid, prop, src = args[:3]
    opts = sys.argv[1:]
    no_suite = '--no-suite' in opts
    checks = [prop]
    tier = 'quick'
    for i, o in enumerate(opts):
        if o == '--checks':
            checks = [c for c in opts[i + 1].split(',') if c != 'none']
        if o == '--tier':
            tier = opts[i + 1]
    wt = '/tmp/cm/' + sid
    os.makedirs('/tmp/cm', exist_ok=True)
    sh('git', '-C', '/repo', 'worktree', 'remove', '--force', wt)
    r = sh('git', '-C', '/repo', 'worktree', 'add', '--detach', wt, 'HEAD')
    assert r.returncode == 0, r.stdout
    dst = os.path.join(HERE, 'seeded', sid)
    os.makedirs(dst, exist_ok=True)
    meta_path = os.path.join(dst, 'meta.json')
    meta = json.load(open(meta_path)) if os.path.exists(meta_path) else {}
    meta.update(id=sid, property=prop, base_commit=sh('git', '-C', '/repo', 'rev-parse', '--short', 'HEAD').stdout.strip())
    try:
        for f in ('patch.diff', 'demo.py', 'NOTES.md'):
            if os.path.exists(os.path.join(src, f)) and os.path.abspath(src) != os.path.abspath(dst):
                shutil.copy(os.path.join(src, f), os.path.join(dst, f))
        shutil.copy(os.path.join(dst, 'demo.py'), os.path.join(wt, 'demo.py'))
        env = dict(os.environ)
        env.pop('VERIF_REPO', None)
        d0 = sh('/venv/bin/python', 'demo.py', cwd=wt, env=env, timeout=600)
        r = sh('git', '-C', wt, 'apply', os.path.join(dst, 'patch.diff'))
        assert r.returncode == 0, 'patch does not apply: ' + r.stdout
        d1 = sh('/venv/bin/python', 'demo.py', cwd=wt, env=env, timeout=600)
        meta['demo'] = dict(without_change_exit=d0.returncode, with_change_exit=d1.returncode,
                            with_change_tail=d1.stdout.strip().splitlines()[-3:])
        print(sid, 'demo without change: exit', d0.returncode, '| with change: exit', d1.returncode)
        meta['demo_confirmed'] = (d0.returncode == 0 and d1.returncode != 0)
        if not no_suite:
            t0 = time.time()
            s = sh('/venv/bin/python', '-m', 'pytest', '-q', '-p', 'no:cacheprovider', '--timeout=900', 'test_syncobj.py', cwd=wt, env=env, timeout=3000)
            failed = set(re.findall(r'^FAILED test_syncobj.py::(\w+)', s.stdout, re.M))
            tail = s.stdout.strip().splitlines()[-1] if s.stdout.strip() else ''
            meta['suite'] = dict(cmd='/venv/bin/python -m pytest -q -p no:cacheprovider --timeout=900 test_syncobj.py',
                                 summary=tail, failed=sorted(failed), unexpected=sorted(failed - ALLOWED_FAIL), wall_s=round(time.time() - t0))
            unexpected = failed - ALLOWED_FAIL
            for attempt in range(3):
                # timing-dependent tests fail now and then on a loaded machine (with and without a change): re-run them alone
                if not unexpected:
                    break
                s2 = sh('/venv/bin/python', '-m', 'pytest', '-q', '-p', 'no:cacheprovider', '--timeout=900', 'test_syncobj.py',
                        '-k', ' or '.join(sorted(unexpected)), cwd=wt, env=env, timeout=3000)
                still = set(re.findall(r'^FAILED test_syncobj.py::(\w+)', s2.stdout, re.M))
                meta['suite'].setdefault('reruns', []).append(dict(tests=sorted(unexpected), still_failing=sorted(still)))
                unexpected = still
            meta['suite']['unexpected_after_reruns'] = sorted(unexpected)
            print(sid, 'suite:', tail, 'unexpected failures:', sorted(failed - ALLOWED_FAIL), 'after re-runs:', sorted(unexpected))
            sh('git', '-C', wt, 'checkout', '--', 'journal4.bin.meta', 'journal5.bin.meta')
        res = meta.setdefault('checks', {})
        for c in checks:
            found = '/tmp/cm/found_%s_%s' % (sid, c)
            shutil.rmtree(found, ignore_errors=True)
            os.makedirs(found)
            e2 = dict(env, VERIF_REPO=wt, VERIF_FOUND_DIR=found, VERIF_EVID_DIR=found)
            t0 = time.time()
            k = sh(os.path.join(HERE, 'check'), c, tier, env=e2, timeout=7200)
            lines = k.stdout.strip().splitlines()
            vio = [l for l in lines if l.startswith('VIOLATION')]
            inv = [l.strip() for l in lines if re.match(r'^\s+\w+: ', l)][:4]
            res['%s %s' % (c, tier)] = dict(cmd='VERIF_REPO=<worktree with patch.diff applied> ./check %s %s' % (c, tier), exit=k.returncode,
                                            caught=bool(vio) and k.returncode == 1, first=inv, wall_s=round(time.time() - t0))
            print(sid, 'check', c, tier, 'exit', k.returncode, 'caught' if vio else 'MISSED', inv[:2])
            shutil.rmtree(found, ignore_errors=True)
    finally:
        with open(meta_path, 'w') as f:
            json.dump(meta, f, indent=1, sort_keys=True)
        sh('git', '-C', '/repo', 'worktree', 'remove', '--force', wt)
    return 0


if __name__ == '__main__':
    sys.exit(main())
