#!/bin/bash
# soak.sh <tier> <seed> [<seed> ...]: every check at the given tier under other VERIF_SEED values
# (evidence and found replays go to /tmp/soak_*; prints one summary line per check)
tier=$1; shift
for seed in "$@"; do
  for p in C01 C02 C03 C04 C05 C06 C07 C08 C09 C10 C11 C12 C13 C14 C15 C16 C17 C18 C19 C20; do
    out=$(VERIF_SEED=$seed VERIF_EVID_DIR=/tmp/soak_evid VERIF_FOUND_DIR=/tmp/soak_found_$seed ./check $p $tier 2>&1)
    rc=$?
    echo "seed=$seed $p rc=$rc $(echo "$out" | grep -E "^$p $tier:" | cut -c1-140)"
    echo "$out" | grep -E "^VIOLATION|^  [a-z_]+: " | cut -c1-260
  done
done
