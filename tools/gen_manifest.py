#!/venv/bin/python
"""Regenerate /verif/MANIFEST.json from the property modules (vsim/props/cNN.py)."""
import os
import sys
import json
import importlib

HERE = os.path.dirname(os.path.dirname(os.path.abspath(__file__)))
sys.path.insert(0, HERE)
from vsim import boot

boot.ensure_env()

ALL = ['C%02d' % i for i in range(1, 21)]

LEVEL_TEXT = {
    'exploration': 'seeded search over schedules and fault sequences in a deterministic simulation of the real code; a clean batch is evidence, not proof',
    'fault_enumeration': 'operation sequences are sampled; for each sampled sequence every kill point is enumerated',
}


def main():
    checks = []
    na = []
    for pid in ALL:
        path = os.path.join(HERE, 'vsim', 'props', pid.lower() + '.py')
        if not os.path.exists(path):
            na.append(dict(property_id=pid, reason='check not built yet (work in progress; the design in DESIGN.md section 6 applies)'))
            continue
        mod = importlib.import_module('vsim.props.%s' % pid.lower())
        if getattr(mod, 'NOT_APPLICABLE', None):
            na.append(dict(property_id=pid, reason=mod.NOT_APPLICABLE))
            continue
        checks.append(dict(
            property_id=pid,
            quick_cmd='./check %s quick' % pid,
            thorough_cmd='./check %s thorough' % pid,
            evidence_file='evidence/%s.json' % pid,
            replay_cmd_template='./check replay {path}',
            engine=getattr(mod, 'ENGINE', 'tick'),
            level_claimed=dict(category=mod.LEVEL, text=getattr(mod, 'LEVEL_TEXT', LEVEL_TEXT[mod.LEVEL]),
                               design_ref='DESIGN.md section 6, ' + pid),
            level_note='; '.join(getattr(mod, 'ASSUMPTIONS', [])),
            technique=getattr(mod, 'TECHNIQUE', 'deterministic simulation with fault injection: seeded scheduler over the real code on simulated sockets, clock and file system; invariants checked after every event; replayable minimised event lists'),
        ))
    man = dict(
        version=1,
        setup_cmd='/venv/bin/python -c "import hypothesis" 2>/dev/null; /venv/bin/python tools/setup_check.py',
        hooks=dict(guard='PYSYNCOBJ_VERIF',
                   enable='no guarded source hook exists: every seam is a rebindable module global or constructor argument of pysyncobj; checks set PYSYNCOBJ_VERIF=1 in their own environment only',
                   baseline_off_cmd='cd /repo && env -u PYSYNCOBJ_VERIF /venv/bin/python -m pytest -ra -q -p no:cacheprovider --timeout=900 --continue-on-collection-errors test_syncobj.py',
                   source_commits=[], add_only=True),
        engines=[
            dict(name='tick', path='vsim/world.py', kind_free_text='discrete-event single-threaded engine: one node tick / byte delivery / fault per event, virtual clock, SimNet, SimFS',
                 serves_properties=[c['property_id'] for c in checks if c['engine'] == 'tick']),
            dict(name='framing', path='vsim/props/c13.py', kind_free_text='two real TcpConnection objects over SimNet (op-list interpreter, reconnect epochs) and poller batches over the repository\'s PollPoller/SelectPoller', serves_properties=['C13']),
            dict(name='journal', path='vsim/props/c08.py', kind_free_text='real FileJournal over SimFS with enumerated kill points', serves_properties=['C08']),
            dict(name='tick+sleepers', path='vsim/props/c16.py', kind_free_text='tick engine plus cooperative sleepers: the lock manager\'s real prolongation thread runs only from one time.sleep() to the next, released by the scheduler', serves_properties=['C16']),
            dict(name='thread', path='vsim/thr.py', kind_free_text='baton-passing real threads (auto-tick threads, caller threads, network pump): exactly one runs, the seeded scheduler picks the next at sys.settrace line/opcode events and at blocking points', serves_properties=['C19']),
        ],
        checks=checks,
        not_applicable=na,
        notes='All checks run the code of /repo (or VERIF_REPO) as it is on disk at the time of the call; nothing is built or cached. ./check <ID> quick|thorough, ./check replay <file>, ./check selftest.',
    )
    with open(os.path.join(HERE, 'MANIFEST.json'), 'w') as f:
        json.dump(man, f, indent=1)
    print('MANIFEST.json: %d checks, %d not applicable' % (len(checks), len(na)))


if __name__ == '__main__':
    main()
