#!/venv/bin/python
"""setup_cmd: nothing is built; verify that the interpreter and the repository import."""
import os
import sys
sys.path.insert(0, os.path.dirname(os.path.dirname(os.path.abspath(__file__))))
from vsim import boot
boot.ensure_env()
boot.install()
print('setup ok: pysyncobj from', boot.REPO, 'python', sys.version.split()[0])
