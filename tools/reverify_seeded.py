#!/venv/bin/python
"""reverify_seeded.py [id ...] - run, for every seeded change (or the named ones), the checks recorded as catching it
against a scratch worktree of /repo HEAD with the change applied (VERIF_REPO; /repo itself is left alone), with the harness
as it is now, and update seeded/<id>/meta.json (checks.*: caught, exit, first alarms, harness commit).  The batch stops
at the first violation that is not a known finding (VERIF_STOP_ON_FIRST).  Prints one line per change."""
import os
import re
import sys
import json
import glob
import shutil
import subprocess
import time

HERE = os.path.dirname(os.path.dirname(os.path.abspath(__file__)))


def sh(*a, **k):
    return subprocess.run(a, stdout=subprocess.PIPE, stderr=subprocess.STDOUT, text=True, **k)


def main():
    ids = sys.argv[1:] or sorted(os.path.basename(d) for d in glob.glob(os.path.join(HERE, 'seeded', 'C*-m*')))
    head = sh('git', '-C', HERE, 'rev-parse', '--short', 'HEAD').stdout.strip()
    repo_head = sh('git', '-C', '/repo', 'rev-parse', '--short', 'HEAD').stdout.strip()
    missed = []
    for sid in ids:
        d = os.path.join(HERE, 'seeded', sid)
        meta = json.load(open(os.path.join(d, 'meta.json')))
        prop = meta['property']
        wanted = [k.split()[0] for k, v in meta.get('checks', {}).items() if v.get('caught')] or [prop]
        if prop in wanted:
            wanted = [prop] + [c for c in wanted if c != prop]
        wt = '/tmp/rv/' + sid
        os.makedirs('/tmp/rv', exist_ok=True)
        sh('git', '-C', '/repo', 'worktree', 'remove', '--force', wt)
        r = sh('git', '-C', '/repo', 'worktree', 'add', '--detach', wt, 'HEAD')
        assert r.returncode == 0, r.stdout
        try:
            r = sh('git', '-C', wt, 'apply', os.path.join(d, 'patch.diff'))
            if r.returncode != 0:
                print(sid, 'PATCH DOES NOT APPLY', r.stdout.strip()[:200])
                missed.append(sid)
                continue
            any_caught = False
            for c in wanted:
                found = '/tmp/rv/found_%s_%s' % (sid, c)
                shutil.rmtree(found, ignore_errors=True)
                os.makedirs(found)
                env = dict(os.environ, VERIF_REPO=wt, VERIF_FOUND_DIR=found, VERIF_EVID_DIR=found, VERIF_STOP_ON_FIRST='1', VERIF_MIN_S='5')
                t0 = time.time()
                k = sh(os.path.join(HERE, 'check'), c, 'quick', env=env, timeout=3600)
                lines = k.stdout.strip().splitlines()
                vio = [l for l in lines if l.startswith('VIOLATION')]
                inv = [l.strip() for l in lines if re.match(r'^\s+\w+: ', l)][:4]
                caught = bool(vio) and k.returncode == 1
                meta.setdefault('checks', {})['%s quick' % c] = dict(
                    cmd='VERIF_REPO=<worktree of /repo %s with patch.diff applied> VERIF_STOP_ON_FIRST=1 ./check %s quick' % (repo_head, c),
                    exit=k.returncode, caught=caught, first=inv, wall_s=round(time.time() - t0), harness_commit=head)
                shutil.rmtree(found, ignore_errors=True)
                print(sid, c, 'caught' if caught else ('MISSED exit %d' % k.returncode), (inv[:1] or [''])[0][:140], flush=True)
                any_caught = any_caught or caught
                if caught and c == prop:
                    break
            if not any_caught:
                missed.append(sid)
            meta['base_commit'] = repo_head
            with open(os.path.join(d, 'meta.json'), 'w') as f:
                json.dump(meta, f, indent=1, sort_keys=True)
        finally:
            sh('git', '-C', '/repo', 'worktree', 'remove', '--force', wt)
    print('missed:', missed)
    return 0


if __name__ == '__main__':
    sys.exit(main())
