#!/bin/bash
# soak_thorough.sh <budget_s> [<seed>]: every check at the thorough tier (evidence/found under /tmp/soakT_*)
b=$1; seed=${2:-}
for p in C01 C02 C03 C04 C05 C06 C07 C08 C09 C10 C11 C12 C13 C14 C15 C16 C17 C18 C19 C20; do
  if [ -n "$seed" ]; then export VERIF_SEED=$seed; fi
  out=$(VERIF_BUDGET_S=$b VERIF_EVID_DIR=/tmp/soakT_evid VERIF_FOUND_DIR=/tmp/soakT_found_${seed:-d} ./check $p thorough 2>&1)
  rc=$?
  echo "seed=${seed:-default} $p rc=$rc $(echo "$out" | grep -E "^$p thorough:" | cut -c1-140)"
  echo "$out" | grep -E "^VIOLATION|^  [a-z_]+: |^HARNESS" | cut -c1-260
done
