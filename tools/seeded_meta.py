#!/venv/bin/python
"""Adds the hand-written fields (what the change is, what it needs to manifest) to
seeded/<id>/meta.json and regenerates seeded/README.md from all meta.json files."""
import os
import json
import glob

HERE = os.path.dirname(os.path.dirname(os.path.abspath(__file__)))

DESCR = {
    'C01-m1': ('leader commit rule: the "entry is of my current term" condition is dropped',
               'Raft figure 8: three leader changes, two partial replications, the old-term entries acknowledged but not the new leader\'s no-op, then a node with a newer-term tail elected by the follower'),
    'C02-m1': ('apply loop: callback term test == weakened to <=',
               'a leader with an uncommitted entry carrying a callback is deposed; the position is overwritten by a newer-term entry and applied on it'),
    'C03-m1': ('request_vote: the two log-up-to-date conditions merged into one weaker one',
               'a cut-off ex-leader with a long old-term tail reconnects to a voter while the new leader (shorter, newer-term log with a committed entry) is unreachable'),
    'C04-m1': ('append_entries on a follower: log cut after the last entry of a message even if the message held nothing new',
               'several batches in flight (small batch size), an early reply moves nextIndex back, a shorter duplicate arrives after the follower acknowledged later entries; leader crash for permanent loss'),
    'C05-m1': ('conflicting-tail drop guarded by the leader\'s commit index instead of the follower\'s',
               'a stale leader with an uncommitted tail rejoins while the new leader holds more than one batch beyond its log end'),
    'C06-m1': ('__loadDumpFile at start: journal head compared with the wrong snapshot entry',
               'journal + dump file, kill after the dump rename and before the journal trim with entries after the snapshot position'),
    'C07-m1': ('FileJournal.setRaftTermAndVote: write deferred to the one-second timer',
               'a journaled voter grants a vote, is killed within a second, restarts and is asked by another candidate of the same term'),
    'C08-m1': ('FileJournal.add: header offset written before the record bytes',
               'a kill between the two primitive writes of one append (stale or zero bytes behind the old end)'),
    'C09-m1': ('__tryLogCompaction: member-set wind-back starts one entry too early',
               'dynamic membership; compaction while the last applied entry is a membership change; the snapshot is then loaded (install or restart)'),
    'C10-m1': ('__onBecomeLeader: __noopIDx read before the no-op is appended',
               'a membership change requested between an election and the commit of the leader\'s no-op, plus a partition (two disjoint majorities)'),
    'C11-m1': ('chunked entry: last chunk labelled "finish" only if shorter than a full chunk (>= to >)',
               'pickled entry length an exact multiple of appendEntriesBatchSizeBytes'),
    'C12-m1': ('apply loop: inner except re-raises the SyncObjException base class',
               'a replicated method raising SyncObjException (or a subclass other than the wrong-version one)'),
    'C13-m1': ('frame parser: completeness test ignores the 4-byte length header',
               'a read that ends inside the last 4 bytes of a frame (short write, full buffer, segmentation)'),
    'C14-m1': ('TCPTransport.dropNode: early return when there is no connection, skipping the node-table clean-up',
               'a removed node that never connected during the accepting process\' life, has the greater address and runs again with its old configuration'),
    'C15-m1': ('ReplDict.pop returns "stored or default"',
               'a falsy stored value popped with a default'),
    'C16-m1': ('lock manager acquire: expired entry deleted instead of clearing the local variable',
               'holder silent for longer than autoUnlockTime and the first command to meet the expired entry is an acquire of another client'),
    'C17-m1': ('__enabledCodeVersion initialised before the loop that collects non-snapshot attributes (so it is not in snapshots)',
               'setCodeVersion, then compaction, then a node loads that snapshot (restart or catch-up) and a versioned method is called'),
    'C18-m1': ('leader commit majority counts every key of __raftMatchIndex (read-only nodes included)',
               'a read-only node connected to a leader that lacks a voter majority'),
    'C19-m1': ('AsyncResult.onResult: event.set() before result/error are stored',
               'several concurrent sync callers and a thread switch inside a 2-3 bytecode window'),
    'C20-m1': ('leader fallback counts every key of __lastResponseTime (read-only nodes included)',
               'a read-only node keeps answering a leader that is cut off from all other voters'),
    'C01-m2': ('(same diff as C04-m1, delivered for C01) follower cuts its log after a message that held nothing new',
               'held-back acknowledgement, retransmission split into several messages, connection lost after the first one, the shortened follower elected'),
    'C02-m2': ('apply_command_response: callback looked up with get() instead of pop()',
               'a command forwarded by a follower with a callback completes; later that node observes a leader change: second call with LEADER_CHANGED'),
    'C03-m2': ('request_vote: operands of the stale-term test swapped (always true)',
               'five nodes, two candidates in one term, a delayed vote request reaching a voter that has moved to the next term without voting in it'),
    'C04-m2': ('leader commit rule: "commitTerm != currentTerm" weakened to ">" (never true)',
               'Raft figure 8 (as C01-m1)'),
    'C05-m2': ('__deleteEntriesTo: guard against a negative offset removed',
               'non-fork serializer; a snapshot is installed between the start and the completion of the node\'s own compaction, with uncommitted entries after it'),
    'C06-m2': ('(same diff as C08-m1, delivered for C06) FileJournal.add writes the header offset first',
               'kill between the two writes of one append: journal cannot be reopened / deleted records come back'),
    'C07-m2': ('append_entries with a higher term: the new term is not written to the journal',
               'a journaled voter learns a term only from a leader\'s append_entries, acknowledges, restarts, and a delayed message of the older term arrives'),
    'C08-m2': ('FileJournal.clear: cached append offset not reset',
               'non-empty journal, clear(), add(), close and reopen (snapshot install on a journaled follower, then restart)'),
    'C09-m2': ('checkSerializing: raw wait status replaced by os.WEXITSTATUS(status) (a child killed by a signal counts as success)',
               'useFork with a dump file and a fork child that dies by a signal while writing'),
    'C10-m2': ('term-mismatch truncation: the membership entry sitting exactly at prevLogIdx is removed but not reverted',
               'an uncommitted membership entry at index i on a cut-off leader and a conflict found exactly at i (two leader changes)'),
    'C11-m2': ('follower no longer answers the intermediate chunks of a chunked log entry',
               'an entry whose chunked transfer takes longer than connectionTimeout: the leader cuts its own connection and restarts forever'),
    'C12-m2': ('apply loop hands copy.copy(e) of the raised exception to the caller',
               'a raising command whose exception class has a constructor that does not accept its own args'),
    'C13-m2': ('frame parser: bare except narrowed to a list of exception types',
               'a frame with a valid length and one valid zlib stream whose content is not a loadable pickle (KeyError, IndexError, AttributeError, ... escape the event loop)'),
    'C14-m2': ('TcpConnection.send: idle-link excuse tests the last read time instead of the last send time (read time-out never fires)',
               'a black-holed or half-open connection on which the node keeps sending'),
    'C15-m2': ('ReplQueue.__init__: base-class constructor called after the data attributes are created (they are excluded from snapshots)',
               'a snapshot of a non-empty queue is loaded (restart from dump or catch-up by snapshot)'),
    'C16-m2': ('lock manager: base-class constructor called after the lock table is created (it is excluded from snapshots)',
               'lock held, compaction, a node loads the snapshot, a client on that node acquires the same lock'),
    'C17-m2': ('apply-time guard for version entries: "lower than enabled" replaced by "equal to enabled"',
               'two overlapping version requests, the lower one ordered after the higher one in the log'),
    'C18-m2': ('transport: read-only node counter decremented on disconnect (ids of observers repeat)',
               'two observers on one voter, the lower-numbered leaves, another joins: a connected observer no longer follows'),
    'C19-m2': ('FastQueue.put_nowait: overflow test after the append',
               'more than commandsQueueSize+1 commands pending on one node: reported QUEUE_FULL and applied anyway, callback twice'),
    'C20-m2': ('a (re)connect event refreshes the leader\'s "last heard from" time of that node',
               'a leader cut off at the message level while connect events keep arriving (flapping link, frozen peers)'),
}


def main():
    rows = []
    for mp in sorted(glob.glob(os.path.join(HERE, 'seeded', '*', 'meta.json'))):
        m = json.load(open(mp))
        sid = m['id']
        if sid in DESCR:
            m['change'], m['needs_to_manifest'] = DESCR[sid]
        with open(mp, 'w') as f:
            json.dump(m, f, indent=1, sort_keys=True)
        demo = m.get('demo', {})
        suite = m.get('suite', {})
        checks = m.get('checks', {})
        caught = [k for k, v in checks.items() if v.get('caught')]
        missed = [k for k, v in checks.items() if not v.get('caught')]
        rows.append((sid, m['property'], m.get('change', '?'), m.get('needs_to_manifest', '?'),
                     'exit %s / %s' % (demo.get('without_change_exit'), demo.get('with_change_exit')),
                     suite.get('summary', 'n/a').split(' in ')[0] + (' (re-run alone: ok)' if suite.get('reruns') else ''),
                     ', '.join(caught) or '-', ', '.join(missed) or '-',
                     '; '.join((v.get('first') or [''])[0][:110] for k, v in checks.items() if v.get('caught'))))
    out = ['# Seeded changes', '',
           'Each directory holds `patch.diff` (a change to bakwc/PySyncObj produced by a sub-agent that saw only the text of one',
           'property and a scratch worktree), the sub-agent\'s demonstration `demo.py` (exits 0 on the unmodified tree, non-zero',
           'with the change) and notes, and `meta.json` (what was confirmed here: demonstration with/without the change, the',
           'repository\'s test suite with the change, and which checks were run against it with which result). None of these',
           'changes is committed to /repo. To run a check against one: `git -C /repo apply /verif/seeded/<id>/patch.diff`,',
           '`./check <ID> quick`, `git -C /repo checkout -- .` (or `VERIF_REPO=<worktree with the patch applied> ./check ...`,',
           'which is what `tools/confirm_mutant.py` does so that /repo stays untouched).', '',
           '| id | property | change | needs to manifest | demo without/with | suite with change | caught by | missed by | first alarm |',
           '|---|---|---|---|---|---|---|---|---|']
    for r in rows:
        out.append('| ' + ' | '.join(str(x).replace('|', '/') for x in r) + ' |')
    with open(os.path.join(HERE, 'seeded', 'README.md'), 'w') as f:
        f.write('\n'.join(out) + '\n')
    print('%d seeded changes' % len(rows))


if __name__ == '__main__':
    main()
