#!/venv/bin/python
"""Adds the hand-written fields (what the change is, what it needs to manifest) to
seeded/<id>/meta.json and regenerates seeded/README.md from all meta.json files."""
import os
import json
import glob

HERE = os.path.dirname(os.path.dirname(os.path.abspath(__file__)))

DESCR = {
    'C01-m1': ('leader commit rule: the "entry is of my current term" condition is dropped',
               'Raft figure 8: three leader changes, two partial replications, the old-term entries acknowledged but not the new leader\'s no-op, then a node with a newer-term tail elected by the follower'),
    'C02-m1': ('apply loop: callback term test == weakened to <=',
               'a leader with an uncommitted entry carrying a callback is deposed; the position is overwritten by a newer-term entry and applied on it'),
    'C03-m1': ('request_vote: the two log-up-to-date conditions merged into one weaker one',
               'a cut-off ex-leader with a long old-term tail reconnects to a voter while the new leader (shorter, newer-term log with a committed entry) is unreachable'),
    'C04-m1': ('append_entries on a follower: log cut after the last entry of a message even if the message held nothing new',
               'several batches in flight (small batch size), an early reply moves nextIndex back, a shorter duplicate arrives after the follower acknowledged later entries; leader crash for permanent loss'),
    'C05-m1': ('conflicting-tail drop guarded by the leader\'s commit index instead of the follower\'s',
               'a stale leader with an uncommitted tail rejoins while the new leader holds more than one batch beyond its log end'),
    'C06-m1': ('__loadDumpFile at start: journal head compared with the wrong snapshot entry',
               'journal + dump file, kill after the dump rename and before the journal trim with entries after the snapshot position'),
    'C07-m1': ('FileJournal.setRaftTermAndVote: write deferred to the one-second timer',
               'a journaled voter grants a vote, is killed within a second, restarts and is asked by another candidate of the same term'),
    'C08-m1': ('FileJournal.add: header offset written before the record bytes',
               'a kill between the two primitive writes of one append (stale or zero bytes behind the old end)'),
    'C09-m1': ('__tryLogCompaction: member-set wind-back starts one entry too early',
               'dynamic membership; compaction while the last applied entry is a membership change; the snapshot is then loaded (install or restart)'),
    'C10-m1': ('__onBecomeLeader: __noopIDx read before the no-op is appended',
               'a membership change requested between an election and the commit of the leader\'s no-op, plus a partition (two disjoint majorities)'),
    'C11-m1': ('chunked entry: last chunk labelled "finish" only if shorter than a full chunk (>= to >)',
               'pickled entry length an exact multiple of appendEntriesBatchSizeBytes'),
    'C12-m1': ('apply loop: inner except re-raises the SyncObjException base class',
               'a replicated method raising SyncObjException (or a subclass other than the wrong-version one)'),
    'C13-m1': ('frame parser: completeness test ignores the 4-byte length header',
               'a read that ends inside the last 4 bytes of a frame (short write, full buffer, segmentation)'),
    'C14-m1': ('TCPTransport.dropNode: early return when there is no connection, skipping the node-table clean-up',
               'a removed node that never connected during the accepting process\' life, has the greater address and runs again with its old configuration'),
    'C15-m1': ('ReplDict.pop returns "stored or default"',
               'a falsy stored value popped with a default'),
    'C16-m1': ('lock manager acquire: expired entry deleted instead of clearing the local variable',
               'holder silent for longer than autoUnlockTime and the first command to meet the expired entry is an acquire of another client'),
    'C17-m1': ('__enabledCodeVersion initialised before the loop that collects non-snapshot attributes (so it is not in snapshots)',
               'setCodeVersion, then compaction, then a node loads that snapshot (restart or catch-up) and a versioned method is called'),
    'C18-m1': ('leader commit majority counts every key of __raftMatchIndex (read-only nodes included)',
               'a read-only node connected to a leader that lacks a voter majority'),
    'C19-m1': ('AsyncResult.onResult: event.set() before result/error are stored',
               'several concurrent sync callers and a thread switch inside a 2-3 bytecode window'),
    'C20-m1': ('leader fallback counts every key of __lastResponseTime (read-only nodes included)',
               'a read-only node keeps answering a leader that is cut off from all other voters'),
    'C01-m2': ('(same diff as C04-m1, delivered for C01) follower cuts its log after a message that held nothing new',
               'held-back acknowledgement, retransmission split into several messages, connection lost after the first one, the shortened follower elected'),
    'C02-m2': ('apply_command_response: callback looked up with get() instead of pop()',
               'a command forwarded by a follower with a callback completes; later that node observes a leader change: second call with LEADER_CHANGED'),
    'C03-m2': ('request_vote: operands of the stale-term test swapped (always true)',
               'five nodes, two candidates in one term, a delayed vote request reaching a voter that has moved to the next term without voting in it'),
    'C04-m2': ('leader commit rule: "commitTerm != currentTerm" weakened to ">" (never true)',
               'Raft figure 8 (as C01-m1)'),
    'C05-m2': ('__deleteEntriesTo: guard against a negative offset removed',
               'non-fork serializer; a snapshot is installed between the start and the completion of the node\'s own compaction, with uncommitted entries after it'),
    'C06-m2': ('(same diff as C08-m1, delivered for C06) FileJournal.add writes the header offset first',
               'kill between the two writes of one append: journal cannot be reopened / deleted records come back'),
    'C07-m2': ('append_entries with a higher term: the new term is not written to the journal',
               'a journaled voter learns a term only from a leader\'s append_entries, acknowledges, restarts, and a delayed message of the older term arrives'),
    'C08-m2': ('FileJournal.clear: cached append offset not reset',
               'non-empty journal, clear(), add(), close and reopen (snapshot install on a journaled follower, then restart)'),
    'C09-m2': ('checkSerializing: raw wait status replaced by os.WEXITSTATUS(status) (a child killed by a signal counts as success)',
               'useFork with a dump file and a fork child that dies by a signal while writing'),
    'C10-m2': ('term-mismatch truncation: the membership entry sitting exactly at prevLogIdx is removed but not reverted',
               'an uncommitted membership entry at index i on a cut-off leader and a conflict found exactly at i (two leader changes)'),
    'C11-m2': ('follower no longer answers the intermediate chunks of a chunked log entry',
               'an entry whose chunked transfer takes longer than connectionTimeout: the leader cuts its own connection and restarts forever'),
    'C12-m2': ('apply loop hands copy.copy(e) of the raised exception to the caller',
               'a raising command whose exception class has a constructor that does not accept its own args'),
    'C13-m2': ('frame parser: bare except narrowed to a list of exception types',
               'a frame with a valid length and one valid zlib stream whose content is not a loadable pickle (KeyError, IndexError, AttributeError, ... escape the event loop)'),
    'C14-m2': ('TcpConnection.send: idle-link excuse tests the last read time instead of the last send time (read time-out never fires)',
               'a black-holed or half-open connection on which the node keeps sending'),
    'C15-m2': ('ReplQueue.__init__: base-class constructor called after the data attributes are created (they are excluded from snapshots)',
               'a snapshot of a non-empty queue is loaded (restart from dump or catch-up by snapshot)'),
    'C16-m2': ('lock manager: base-class constructor called after the lock table is created (it is excluded from snapshots)',
               'lock held, compaction, a node loads the snapshot, a client on that node acquires the same lock'),
    'C17-m2': ('apply-time guard for version entries: "lower than enabled" replaced by "equal to enabled"',
               'two overlapping version requests, the lower one ordered after the higher one in the log'),
    'C18-m2': ('transport: read-only node counter decremented on disconnect (ids of observers repeat)',
               'two observers on one voter, the lower-numbered leaves, another joins: a connected observer no longer follows'),
    'C19-m2': ('FastQueue.put_nowait: overflow test after the append',
               'more than commandsQueueSize+1 commands pending on one node: reported QUEUE_FULL and applied anyway, callback twice'),
    'C20-m2': ('a (re)connect event refreshes the leader\'s "last heard from" time of that node',
               'a leader cut off at the message level while connect events keep arriving (flapping link, frozen peers)'),
    'C01-m3': ('snapshot install skipped when the log holds an entry at the snapshot\'s last index, whatever its term',
               'a deposed leader with an uncommitted tail receives a snapshot from a leader that compacted past the point where the logs still match'),
    'C02-m3': ('request-id counter initialised after the loop that collects non-snapshot attributes (so it travels inside snapshots)',
               'a follower installs two snapshots of the same leader around forwarded commands (or restarts from its dump): request ids repeat while an answer is pending'),
    'C03-m3': ('vote counting: majority test > weakened to >=',
               'a four-voter cluster and a 2:2 split vote (or a 2|2 partition with a candidate on each side)'),
    'C04-m3': ('follower commit index = min(leader commit, last matched) without the max with its own commit index',
               'a retransmitted batch that ends below the follower\'s commit index while the leader\'s commit index has moved on'),
    'C05-m3': ('acceptTransmission (in-memory): own snapshot set from the receive buffer that was already reset (None)',
               'a node brought up to date by a snapshot does not compact afterwards, becomes leader and has to pass a snapshot on to a laggard'),
    'C06-m3': ('(same diff as C09-m2, delivered for C06) os.WEXITSTATUS on the raw wait status',
               'the fork child dies by a signal while writing the dump; journal trimmed against a dump that was never completed; restart'),
    'C07-m3': ('response_vote sent before the vote is written to the journal',
               'a kill between the send and the .meta write (or a failed write), restart, second candidate of the same term'),
    'C08-m3': ('deleteEntriesTo: tmp file renamed over the journal before it is flushed',
               'a kill right after the rename while the kept records (< 8 KiB) are still in the user-space write buffer'),
    'C09-m3': ('incoming snapshot chunks collected in the same .tmp file as the node\'s own dump',
               'the receiver compacts its own log between the first and the last chunk of a transfer'),
    'C10-m3': ('snapshot member-set wind-back only when the node itself has a pending change marker',
               'a follower (or inheriting leader) compacts while it holds an uncommitted membership entry; the entry is discarded; the dump is used'),
    'C11-m3': ('ResizableFile.write grows the journal file until it exceeds the record size, not the end of the record',
               'file journal and a record in a band just below a power-of-two multiple of the current file size'),
    'C12-m3': ('log line formats e.args[0] inside the exception handler of the apply loop',
               'a raising command whose exception has no arguments or a tuple as its first argument'),
    'C13-m3': ('dispatch loop stops on any falsy decoded message',
               'a legal falsy message (empty string, 0, empty list, ...) - dropped, and the complete frames behind it in the same read are held back'),
    'C14-m3': ('incoming handshake: a new connection of a member that still has a CONNECTED one is closed instead of replacing it',
               'the dialling member restarts while its old connection has gone silent (no FIN reaches the acceptor)'),
    'C15-m3': ('replicated decorator: a call with positional AND keyword arguments is logged without its keyword arguments',
               'a battery method called through the cluster with one positional and one keyword argument'),
    'C16-m3': ('tryAcquire callback path: "too late" threshold autoUnlockTime instead of autoUnlockTime/2',
               'asynchronous tryAcquire whose commit takes between half and the whole auto-unlock time'),
    'C17-m3': ('__onSetCodeVersion iterates the set of versions unsorted',
               'a multi-version method with version numbers of 8 and more next to smaller ones'),
    'C18-m3': ('snapshot-chunk send: the "node lost during send" guard removed',
               'a read-only node whose connection dies inside a non-final snapshot chunk send (KeyError out of the leader\'s tick)'),
    'C19-m3': ('apply_command_response: callback registered under the follower\'s current term instead of the entry\'s term',
               'the follower\'s term rises (vote request) between forwarding a command and the old leader\'s answer, and a new leader fills that index'),
    'C20-m3': ('addNodeToCluster for an existing member refreshes the leader\'s last-response time before being refused',
               'dynamic membership and repeated "add" requests for existing members reaching a cut-off leader'),
}


def main():
    rows = []
    for mp in sorted(glob.glob(os.path.join(HERE, 'seeded', '*', 'meta.json'))):
        m = json.load(open(mp))
        sid = m['id']
        if sid in DESCR:
            m['change'], m['needs_to_manifest'] = DESCR[sid]
        with open(mp, 'w') as f:
            json.dump(m, f, indent=1, sort_keys=True)
        demo = m.get('demo', {})
        suite = m.get('suite', {})
        checks = m.get('checks', {})
        caught = [k for k, v in checks.items() if v.get('caught')]
        missed = [k for k, v in checks.items() if not v.get('caught')]
        rows.append((sid, m['property'], m.get('change', '?'), m.get('needs_to_manifest', '?'),
                     'exit %s / %s' % (demo.get('without_change_exit'), demo.get('with_change_exit')),
                     suite.get('summary', 'n/a').split(' in ')[0] + (' (re-run alone: ok)' if suite.get('reruns') else ''),
                     ', '.join(caught) or '-', ', '.join(missed) or '-',
                     '; '.join((v.get('first') or [''])[0][:110] for k, v in checks.items() if v.get('caught'))))
    out = ['# Seeded changes', '',
           'Each directory holds `patch.diff` (a change to bakwc/PySyncObj produced by a sub-agent that saw only the text of one',
           'property and a scratch worktree), the sub-agent\'s demonstration `demo.py` (exits 0 on the unmodified tree, non-zero',
           'with the change) and notes, and `meta.json` (what was confirmed here: demonstration with/without the change, the',
           'repository\'s test suite with the change, and which checks were run against it with which result). None of these',
           'changes is committed to /repo. To run a check against one: `git -C /repo apply /verif/seeded/<id>/patch.diff`,',
           '`./check <ID> quick`, `git -C /repo checkout -- .` (or `VERIF_REPO=<worktree with the patch applied> ./check ...`,',
           'which is what `tools/confirm_mutant.py` does so that /repo stays untouched).', '',
           '| id | property | change | needs to manifest | demo without/with | suite with change | caught by | missed by | first alarm |',
           '|---|---|---|---|---|---|---|---|---|']
    for r in rows:
        out.append('| ' + ' | '.join(str(x).replace('|', '/') for x in r) + ' |')
    with open(os.path.join(HERE, 'seeded', 'README.md'), 'w') as f:
        f.write('\n'.join(out) + '\n')
    print('%d seeded changes' % len(rows))


if __name__ == '__main__':
    main()
