#!/venv/bin/python
"""cross_hunt.py <PID> <tier> [inv] [n_runs] - list the runs of a check's batch in which an invariant of ANOTHER
property fired (the `cross_property_alarms` of the evidence), with seed and message, so that each can be triaged:
premise of the other property broken by this schedule (expected) or a defect that the other property's own
schedules do not reach."""
import os
import sys
sys.path.insert(0, os.path.dirname(os.path.dirname(os.path.abspath(__file__))))
from vsim import boot
boot.ensure_env()


def main():
    from vsim import runner
    import multiprocessing
    from concurrent.futures import ProcessPoolExecutor
    pid, tier = sys.argv[1].upper(), sys.argv[2]
    inv = sys.argv[3] if len(sys.argv) > 3 and sys.argv[3] != '-' else None
    mod = runner.prop_module(pid)
    n = int(sys.argv[4]) if len(sys.argv) > 4 else runner.QUICK_RUNS.get(pid, mod.BUDGET[tier]['runs'])
    base = int(os.environ.get('VERIF_SEED', '20260922'))
    seeds = [runner.derive_seed(base, k) for k in range(n)]
    with ProcessPoolExecutor(max_workers=16, mp_context=multiprocessing.get_context('fork')) as ex:
        for r in ex.map(runner._work, [(pid, s, tier, 120, k) for k, s in enumerate(seeds)], chunksize=4):
            for v in r.get('cross') or []:
                if inv is None or v['inv'] == inv:
                    print('seed=%d k=%d %s evno=%s: %s' % (r['seed'], seeds.index(r['seed']), v['inv'], v.get('evno'), v['msg'][:300]))


if __name__ == '__main__':
    main()
